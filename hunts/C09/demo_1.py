"""C09 demo 1: in a ~Curve line whose unit starts with a period (DEPT  ..1IN),
replacing the blanks between the mnemonic and the delimiter dot by a TAB changes
the parsed mnemonic and unit.

Base file: tests/examples/autodepthindex_point_one_inch.las (example corpus), whose
curve line reads ' DEPT  ..1IN      : '.
"""
import logging
import os
import lasio

logging.disable(logging.CRITICAL)
here = os.path.dirname(os.path.abspath(__file__))
fn = os.path.join(here, "..", "tests", "examples", "autodepthindex_point_one_inch.las")
text = open(fn).read()

old = " DEPT  ..1IN"
assert text.count(old) == 1
variant = text.replace(old, " DEPT\t..1IN")   # blanks -> one TAB, nothing else

a = lasio.read(text)
b = lasio.read(variant)


def item(c):
    return (c.original_mnemonic, c.unit, c.value, c.descr)


print("base    curve 0:", item(a.curves[0]), " index_unit:", a.index_unit)
print("variant curve 0:", item(b.curves[0]), " index_unit:", b.index_unit)
print("expected: identical items (mnemonic 'DEPT', unit '.1IN'), the two texts differ")
print("          only in the kind of white space between the mnemonic and the dot")
assert (a.curves[0].data == b.curves[0].data).all()
assert item(a.curves[0]) == item(b.curves[0]), "curve item depends on blank vs TAB before the dot"
assert a.index_unit == b.index_unit
