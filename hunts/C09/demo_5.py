"""C09 demo 5: with null_policy='common' (documented option) the replacement of
'(null)', '-', '#N/A', '1.#INF' ... depends on the fields being separated by
BLANKS: the same values separated by TABs are not replaced, and the columns come
back as strings.

Base files: tests/examples/null_policy_(null).las and null_policy_dashes.las."""
import logging
import os
import re
import numpy as np
import lasio

logging.disable(logging.CRITICAL)
here = os.path.dirname(os.path.abspath(__file__))
bad = 0
for name in ("null_policy_(null).las", "null_policy_dashes.las"):
    text = open(os.path.join(here, "..", "tests", "examples", name)).read()
    head, title, data = text.partition("~A")
    titleline, nl, rows = data.partition("\n")
    # re-delimit the data rows: runs of blanks between fields -> one TAB
    rows_tab = "\n".join(re.sub(r" +", "\t", r.strip()) for r in rows.split("\n"))
    variant = head + title + titleline + nl + rows_tab
    a = lasio.read(text, null_policy="common")
    b = lasio.read(variant, null_policy="common")
    c = lasio.read(variant)          # default policy: TABs are fine as separators
    assert len(c.curves) == len(a.curves) and len(c.index) == len(a.index)
    for ca, cb in zip(a.curves, b.curves):
        same = ca.data.dtype == cb.data.dtype and np.array_equal(ca.data, cb.data, equal_nan=ca.data.dtype.kind == "f")
        if not same:
            bad += 1
            print("%s curve %s:\n   blanks -> %r\n   TABs   -> %r" % (name, ca.mnemonic, ca.data.tolist(), cb.data.tolist()))
print("expected: identical curve data, the rows differ only in blanks vs TABs between the fields")
assert bad == 0, "%d curves differ between the blank- and the TAB-separated presentation" % bad
