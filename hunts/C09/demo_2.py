"""C09 demo 2: indenting the title line of the ~Other section (blanks in front of
a line) makes the title part of the section text and drops the last text line.
Every other section accepts an indented title ('~' is a flag when it is the first
non-space character of a line, LAS 2.0)."""
import logging
import lasio

logging.disable(logging.CRITICAL)
base = """~Version
VERS. 2.0 : CWLS LOG ASCII STANDARD - VERSION 2.0
WRAP. NO  : ONE LINE PER DEPTH STEP
~Well
STRT.M 1.0 : START
STOP.M 2.0 : STOP
STEP.M 1.0 : STEP
NULL. -999.25 : NULL
~Curve
DEPT.M  : depth
GR.GAPI : gamma
~Other
first remark
second remark
~A
1.0 20.0
2.0 30.0
"""
# indent every section title by two blanks; nothing else changes
variant = "\n".join(("  " + l if l.startswith("~") else l) for l in base.split("\n"))

a = lasio.read(base)
b = lasio.read(variant)
print("base    other:", repr(a.other))
print("variant other:", repr(b.other))
print("expected: the same text 'first remark\\nsecond remark' in both")
for s in ("Version", "Well", "Curves"):
    assert [str(i) for i in a.sections[s]] == [str(i) for i in b.sections[s]]
assert (a.data == b.data).all()
assert a.other == b.other, "~Other text depends on blanks in front of its title line"
