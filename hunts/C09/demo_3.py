"""C09 demo 3: in ~Parameter the blank in front of (or behind) the delimiter colon
decides which colon of the line is taken for the delimiter.

lasio supports descriptions containing a colon in ~P
(tests/examples/colon_pick_start.las: 'TIML.hh:mm 23:15 23-JAN-2001:   Time Logger: At Bottom')."""
import logging
import lasio

logging.disable(logging.CRITICAL)
tmpl = """~Version
VERS. 2.0 : CWLS LOG ASCII STANDARD - VERSION 2.0
WRAP. NO  : ONE LINE PER DEPTH STEP
~Well
STRT.M 1.0 : START
STOP.M 2.0 : STOP
STEP.M 1.0 : STEP
NULL. -999.25 : NULL
~Curve
DEPT.M  : depth
GR.GAPI : gamma
~Parameter
%s
~A
1.0 20.0
2.0 30.0
"""


def p(line):
    i = lasio.read(tmpl % line).params[0]
    return (i.mnemonic, i.unit, i.value, i.descr)


groups = [
    # blanks between the value and the colon
    ["NRUN.      12 :   Run number: main pass",
     "NRUN.      12:   Run number: main pass",
     "NRUN.\t12:   Run number: main pass"],      # only blank -> TAB in front of the value
    # blanks between the colon and the description
    ["TDL .M   1500 : 30 minutes after circulation: driller",
     "TDL .M   1500 :30 minutes after circulation: driller"],
]
bad = 0
for g in groups:
    ref = p(g[0])
    print("reference %-55r -> %r" % (g[0], ref))
    for line in g[1:]:
        got = p(line)
        flag = "" if got == ref else "   <-- differs"
        bad += got != ref
        print("variant   %-55r -> %r%s" % (line, got, flag))
print("expected: every variant parses like its reference (only white space between fields changed)")
assert bad == 0, "%d presentation variants of a ~Parameter line parse differently" % bad
