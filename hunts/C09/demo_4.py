"""C09 demo 4: inserting comment (or blank) lines into the header of a UTF-8 file on
disk changes header items: the encoding is guessed from the first 4000 bytes only,
the guess 'ascii' is then used for the whole file (errors='replace')."""
import logging
import os
import tempfile
import lasio

logging.disable(logging.CRITICAL)
base = """~Version
VERS. 2.0 : CWLS LOG ASCII STANDARD - VERSION 2.0
WRAP. NO  : ONE LINE PER DEPTH STEP
~Well
STRT.M 1.0 : START
STOP.M 2.0 : STOP
STEP.M 1.0 : STEP
NULL. -999.25 : NULL
~Curve
DEPT.M   : depth
TEMP.\u00b0C : temperature
~Parameter
BHT.\u00b0C 35.5 : bottom hole temperature
~A
1.0 20.0
2.0 30.0
"""
comment = "# " + "-" * 76 + "\n"
variant = base.replace("~Well\n", comment * 60 + "~Well\n")   # 60 comment lines (about 4.7 kB)

d = tempfile.mkdtemp()


def read(text, name):
    fn = os.path.join(d, name)
    with open(fn, "w", encoding="utf-8", newline="\n") as f:
        f.write(text)
    las = lasio.read(fn)
    return las.encoding, las.curves["TEMP"].unit, las.params["BHT"].unit, las["TEMP"].tolist()


a = read(base, "base.las")
b = read(variant, "variant.las")
print("base   :", a)
print("variant:", b)
print("expected: the same units ('\u00b0C') and data; only '#' comment lines were inserted in ~Version")
assert a[3] == b[3]
assert a[1:3] == b[1:3], "header items depend on the number of comment lines in front of them"
