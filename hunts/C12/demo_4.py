"""C12 demo 4: write(wrap=True) can put any cell at the start of a physical line, where
'#' (comment) and '~' (section title) are special for the reader.

A "#N/A" cell is data for lasio (null_policy="strict" keeps it as text, the NA/common
policies turn it into NaN; reader.read_data_section_iterative_numpy_engine explicitly
hands lines with '#' inside to the normal engine because "a value such as #N/A is data").
In an unwrapped line it never stands first (the index does).  When the writer folds the
row, the continuation line may start with it: the reader then drops that whole physical
line as a comment and re-shapes what is left - silently, if the token count still
divides by the number of curves.

Property C12: wrap on / wrap off -> equal curve data.
"""
import io
import logging
import lasio

logging.disable(logging.CRITICAL)

TEXT = """~Version
VERS. 2.0 : CWLS LOG ASCII STANDARD - VERSION 2.0
WRAP.  NO : ONE LINE PER DEPTH STEP
~Well
STRT.M    1.0 : START
STOP.M    4.0 : STOP
STEP.M    1.0 : STEP
NULL. -999.25 : NULL
~Curve
DEPT.M   : depth
GR  .API : gamma ray
QC  .    : quality flag
RHOB.    : density
~A
1.0 10.5 #N/A 2.1
2.0 11.5 #N/A 2.2
3.0 12.5 good 2.3
4.0 13.5 good 2.4
"""


def roundtrip(**cfg):
    las = lasio.read(TEXT)
    buf = io.StringIO()
    las.write(buf, **cfg)
    out = buf.getvalue()
    return out, lasio.read(out)


def show(las):
    return [(c.mnemonic, [str(v) for v in c.data]) for c in las.curves]


ref_out, ref = roundtrip(wrap=False)
out, las = roundtrip(wrap=True, data_width=25)   # same with data_width=79 and more curves
print(out[out.index("~ASCII"):])
print("EXPECTED (read from the unwrapped output):")
print("  ", show(ref))
print("HAPPENED (read from the wrapped output, no error, no warning):")
print("  ", show(las))
assert show(las) == show(ref), "C12 violated: wrapped and unwrapped outputs read back differently"
