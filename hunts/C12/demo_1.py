"""C12 demo 1: write(wrap=True) lets textwrap.TextWrapper cut a single data token in two.

Property C12: reading the output of two writer configurations (here wrap on / wrap off,
same fmt) must give equal curve data.

(a) numeric: a sample whose formatted text is wider than data_width (79 by default) is
    broken in the middle by TextWrapper(break_long_words=True): 1e75 -> 82 characters.
(b) text: a cell such as "silty-sand" is broken after the hyphen by
    TextWrapper(break_on_hyphens=True) whenever the line limit falls inside the cell.
"""
import io
import logging
import numpy as np
import lasio

logging.disable(logging.CRITICAL)

HEADER = """~Version
VERS. 2.0 : CWLS LOG ASCII STANDARD - VERSION 2.0
WRAP.  NO : ONE LINE PER DEPTH STEP
~Well
STRT.M   1.0 : START
STOP.M   3.0 : STOP
STEP.M   1.0 : STEP
NULL. -999.25 : NULL
~Curve
DEPT.M   : depth
GR  .API : gamma ray
LITH.    : lithology / big number
RHOB.    : density
~A
"""
# four rows, each with one over-wide sample: 4 x 5 = 20 tokens reshape silently into 5 rows
NUMERIC = HEADER + "1.0 10.5 1e75 2.1\n2.0 11.5 2e75 2.2\n3.0 12.5 3e75 2.3\n4.0 13.5 4e75 2.4\n"
TEXT = HEADER + "1.0 10.5 silty-sand 2.1\n2.0 11.5 silty-sand 2.2\n3.0 12.5 silty-sand 2.3\n"


def written(text, **cfg):
    las = lasio.read(text)
    buf = io.StringIO()
    las.write(buf, **cfg)
    return buf.getvalue()


def data_of(text):
    return [list(map(str, c.data)) for c in lasio.read(text).curves]


failures = []
for label, text, cfg in (
    ("numeric 1e75, default data_width", NUMERIC, dict(wrap=True)),
    ("text cell 'silty-sand', data_width=30", TEXT, dict(wrap=True, data_width=30)),
):
    plain = data_of(written(text, wrap=False))
    out = written(text, **cfg)
    print("----", label)
    print("data section written with", cfg)
    print(out[out.index("~ASCII"):])
    try:
        wrapped = data_of(out)
    except Exception as exc:
        print("EXPECTED: the wrapped output reads back as", plain)
        print("HAPPENED: reading the wrapped output raised %s: %s"
              % (type(exc).__name__, str(exc).strip().splitlines()[-1]))
        failures.append(label)
        continue
    if wrapped != plain:
        print("EXPECTED:", plain)
        print("HAPPENED:", wrapped)
        failures.append(label)
    else:
        print("ok")

assert not failures, "C12 violated (wrap on/off give different content): %s" % failures
