"""C12 demo 3: with a DLM item in ~Version (every file written by lasio from a new
LASFile() has "DLM. SPACE"), write(spacer="\t") / write(spacer=",") declare DLM TAB /
COMMA - but every cell is still right-justified to len_numeric_field with blanks, and
the TAB / COMMA line splitters of the reader keep those blanks.  Numbers survive
(float() ignores blanks) but text cells come back as '      sand' instead of 'sand'.

Property C12: spacers change presentation only -> curve data read from the two outputs
must be equal.
"""
import io
import logging
import lasio

logging.disable(logging.CRITICAL)

TEXT = """~Version ---------------------------------------------------
VERS.   2.0 : CWLS log ASCII Standard -VERSION 2.0
WRAP.    NO : One line per depth step
DLM . SPACE : Column Data Section Delimiter
~Well ------------------------------------------------------
STRT.M      1.0 : START DEPTH
STOP.M      3.0 : STOP DEPTH
STEP.M      1.0 : STEP
NULL.   -999.25 : NULL VALUE
~Curve Information -----------------------------------------
DEPT.M   : depth
GR  .API : gamma ray
LITH.    : lithology
~ASCII -----------------------------------------------------
 1.0 10.5 sand
 2.0 11.5 shale
 3.0 12.5 lime
"""


def roundtrip(**cfg):
    las = lasio.read(TEXT)
    buf = io.StringIO()
    las.write(buf, **cfg)
    out = buf.getvalue()
    return out, lasio.read(out)


ref_out, ref = roundtrip()
expected = [str(v) for v in ref["LITH"]]
assert expected == ["sand", "shale", "lime"], expected

failures = []
for cfg in (dict(spacer="\t"), dict(spacer=",")):
    out, las = roundtrip(**cfg)
    got = [str(v) for v in las["LITH"]]
    print("---- written with", cfg)
    print(out[out.index("~ASCII"):].replace("\t", "<TAB>"))
    print("DLM read back:", las.version["DLM"].value)
    print("EXPECTED LITH:", expected)
    print("HAPPENED LITH:", got)
    if got != expected:
        failures.append(cfg)

assert not failures, "C12 violated: text cells depend on the spacer for %s" % failures
