"""C12 demo 2: write(spacer=",") on an ordinary LAS 2.0 file (no DLM item in ~Version).

docs/source/writing.rst ("Use a different character as the spacer character" and
"a combined example") shows exactly these two calls on tests/examples/2.0/sample_2.0.las:

    las.write(s, spacer=",")
    las.write(s, lhs_spacer="", spacer=",", len_numeric_field=-1)

writer.write() only corrects a DLM item that is already in ~Version; when there is
none (every LAS 1.2/2.0 file from another source) nothing in the output says that the
data section is comma delimited, so the reader splits it on blanks and applies the
"comma-decimal-mark" / "run-on(.)" substitutions to it.  The content read back depends on
the spacer: C12 (spacers change presentation only) is violated.
"""
import io
import logging
import numpy as np
import lasio

logging.disable(logging.CRITICAL)

TEXT = """~VERSION INFORMATION
 VERS.                          2.0 :   CWLS LOG ASCII STANDARD -VERSION 2.0
 WRAP.                          NO  :   ONE LINE PER DEPTH STEP
~WELL INFORMATION
 STRT.M              1670.0000 : START DEPTH
 STOP.M              1669.7500 : STOP DEPTH
 STEP.M              -0.1250   : STEP
 NULL.               -999.25   : NULL VALUE
 COMP.       ANY OIL COMPANY INC. : COMPANY
~CURVE INFORMATION
 DEPT.M      : 1  DEPTH
 DT  .US/M   : 2  SONIC TRANSIT TIME
 RHOB.K/M3   : 3  BULK DENSITY
 NPHI.V/V    : 4  NEUTRON POROSITY
~A  DEPTH     DT    RHOB        NPHI
1670.000   123.450 2550.000    0.450
1669.875   123.450 2550.000    0.450
1669.750   123.450 2550.000    0.450
"""


def roundtrip(**cfg):
    las = lasio.read(TEXT)
    buf = io.StringIO()
    las.write(buf, **cfg)
    out = buf.getvalue()
    return out, lasio.read(out)


def show(las):
    return [(c.mnemonic, [str(v) for v in c.data]) for c in las.curves]


ref_out, ref = roundtrip()
failures = []
for cfg in (
    dict(spacer=","),
    dict(lhs_spacer="", spacer=",", len_numeric_field=-1),
):
    out, las = roundtrip(**cfg)
    print("---- written with", cfg)
    print(out[out.index("~ASCII"):])
    same = len(las.curves) == len(ref.curves) and all(
        a.data.dtype.kind == "f" and np.array_equal(a.data, b.data, equal_nan=True)
        for a, b in zip(las.curves, ref.curves)
    )
    if not same:
        print("EXPECTED (as read from the default output):", show(ref))
        print("HAPPENED:", show(las))
        failures.append(cfg)

assert not failures, "C12 violated: content depends on the spacer for %s" % failures
