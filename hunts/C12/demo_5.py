"""C12 demo 5: a header item whose unit consists of digits only (e.g. "SCAL.200  LOG : ...")
reads back with a different unit/value/descr from the 1.2 and the 2.0 output.

The writer pads the space between the unit and the right-hand item so that the widest item
of the section gets exactly ONE blank (writer.get_section_widths / get_formatter_function
middle_func).  The reader's unit pattern  (?P<unit>([0-9]+\\s)?[^\\s]*)  (the "1000 psi"
special case, reader.configure_metadata_patterns) swallows "digits + one blank + next word"
into the unit.  Which item is the widest depends on the layout: in 2.0 the value sits next
to the unit, in 1.2 the description does - so the very same item is parsed differently
from the two outputs although neither value nor description contains a colon.

Property C12: converting between 1.2 and 2.0 never changes the meaning of ~Well lines.
"""
import io
import logging
import lasio

logging.disable(logging.CRITICAL)

TEXT = """~Version
VERS. 2.0 : CWLS LOG ASCII STANDARD - VERSION 2.0
WRAP.  NO : ONE LINE PER DEPTH STEP
~Well
STRT.M      1.0 : START
STOP.M      3.0 : STOP
STEP.M      1.0 : STEP
NULL.   -999.25 : NULL
COMP.   ANY OIL COMPANY INCORPORATED : COMPANY
SCAL.200    LOG : PRESENTATION SCALE ONE TO N
~Curve
DEPT.M   : depth
GR  .API : gamma ray
~A
1.0 10.5
2.0 11.5
3.0 12.5
"""


def roundtrip(**cfg):
    las = lasio.read(TEXT)
    buf = io.StringIO()
    las.write(buf, **cfg)
    out = buf.getvalue()
    return out, lasio.read(out)


def item(las, key):
    it = las.well[key]
    return (it.mnemonic, it.unit, str(it.value), it.descr)


src = item(lasio.read(TEXT), "SCAL")
out20, las20 = roundtrip(version=2.0)
out12, las12 = roundtrip(version=1.2)
for label, out in (("2.0", out20), ("1.2", out12)):
    print("---- ~Well as written for version", label)
    print(out[out.index("~Well"):out.index("~Curve")])
print("item as read from the input :", src)
print("read back from 2.0 output   :", item(las20, "SCAL"))
print("read back from 1.2 output   :", item(las12, "SCAL"))
print("EXPECTED: the two outputs give the same (mnemonic, unit, value, descr)")
assert item(las20, "SCAL") == item(las12, "SCAL"), (
    "C12 violated: SCAL differs between the 1.2 and the 2.0 output")
