"""C02 demo 2: a user-supplied read_policy substitution is applied by the
reference engine only; the fast engine never sees regexp_subs and is not
switched off, so both engines return different curves for the same call.

Run: cd /tmp/hunt-C02 && PYTHONPATH=/tmp/hunt-C02 /venv/bin/python OUT/demo_2.py
"""
import logging
import re

import lasio

logging.disable(logging.CRITICAL)

LAS = """~Version
 VERS. 2.0 :
 WRAP. NO  :
~Well
 STRT.M 1.0 :
 STOP.M 3.0 :
 STEP.M 1.0 :
 NULL.  -999.25 :
~Curve
 DEPT.M   : depth
 GR  .GAPI : gamma
 RHOB.G/C3 : density
~ASCII
 1.0   55.5   2.45
 2.0  -9999   2.50
 3.0   60.0  -9999
~Parameter
 BHT.DEGC 35.5 : bottom hole temperature
"""

# get_substitutions() documents that read_policy may be "a list of actual
# substitutions similar to the values of defaults.READ_SUBS" and that these can
# be mixed with the named ones.
policy = ["run-on(-)", "run-on(.)", (re.compile(r"(?<![\d.])-9999(\.0*)?(?![\d.])"), " NaN ")]

fast = lasio.read(LAS, read_policy=policy)  # default engine
ref = lasio.read(LAS, read_policy=policy, engine="normal")

for name in ("DEPT", "GR", "RHOB"):
    print(name, "expected (reference):", ref[name].tolist(), " fast:", fast[name].tolist())

for name in ("DEPT", "GR", "RHOB"):
    assert fast[name].tobytes() == ref[name].tobytes(), (
        "curve %s differs between engines: fast=%s reference=%s"
        % (name, fast[name].tolist(), ref[name].tolist())
    )
print("OK")
