"""C02 demo 1: use_normal_engine_for_wrapped=False also switches off the
numpy->normal override for null_policy / dtypes, so the fast engine silently
ignores both options while the reference engine honours them.

Run: cd /tmp/hunt-C02 && PYTHONPATH=/tmp/hunt-C02 /venv/bin/python OUT/demo_1.py
"""
import logging

import numpy as np

import lasio

logging.disable(logging.CRITICAL)

# Unwrapped file, plain decimal numbers, one depth step per line.
LAS = """~Version
 VERS. 2.0 : CWLS LOG ASCII STANDARD - VERSION 2.0
 WRAP. NO  : ONE LINE PER DEPTH STEP
~Well
 STRT.M 1.0 :
 STOP.M 3.0 :
 STEP.M 1.0 :
 NULL.  -999.25 :
~Curve
 DEPT.M   : depth
 GR  .GAPI : gamma
~ASCII
 1.0  9999.25
 2.0    55.50
 3.0   -9999
"""


def curves(**kwargs):
    las = lasio.read(LAS, **kwargs)
    return [c.data for c in las.curves]


def same(a, b):
    if len(a) != len(b):
        return False
    for x, y in zip(a, b):
        if x.dtype != y.dtype or x.shape != y.shape:
            return False
        if x.dtype.kind == "f":
            if x.tobytes() != y.tobytes():
                return False
        elif x.tolist() != y.tolist():
            return False
    return True


failures = []
for label, kw in [
    ("null_policy='common'", dict(null_policy="common")),
    ("null_policy=['NULL', '9999'] (list form)", dict(null_policy=["NULL", "9999"])),
    ("dtypes={'GR': str}", dict(dtypes={"GR": str})),
]:
    # Sanity: without the flag both engines agree.
    assert same(curves(engine="numpy", **kw), curves(engine="normal", **kw)), label

    fast = curves(engine="numpy", use_normal_engine_for_wrapped=False, **kw)
    ref = curves(engine="normal", use_normal_engine_for_wrapped=False, **kw)
    print("option:", label, "+ use_normal_engine_for_wrapped=False")
    print("   expected (reference engine) GR =", ref[1].tolist())
    print("   fast engine                 GR =", fast[1].tolist())
    if not same(fast, ref):
        failures.append(label)

assert not failures, (
    "fast and reference engine disagree on an unwrapped, purely numeric file for: %s"
    % failures
)
print("OK")
