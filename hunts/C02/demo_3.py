"""C02 demo 3 (borderline, see notes.md): an open text file object from
codecs.open() / codecs.getreader().  find_sections_in_file() records
file_obj.tell() after each readline(); a codecs.StreamReader reads ahead, so
tell() is the position of the underlying byte stream, not of the line.  The
reference engine (and the header parsers) seek() to those positions and land
in the wrong place; the fast engine rewinds to 0 and counts lines, so it is
the only part that still finds the data.  Same file, two engines, different
curves.

Run: cd /tmp/hunt-C02 && PYTHONPATH=/tmp/hunt-C02 /venv/bin/python OUT/demo_3.py
"""
import codecs
import logging
import os
import tempfile

import lasio

logging.disable(logging.CRITICAL)

LAS = """~Version
 VERS. 2.0 : CWLS LOG ASCII STANDARD - VERSION 2.0
 WRAP. NO  : ONE LINE PER DEPTH STEP
~Well
 STRT.M 1.0 : START
 STOP.M 3.0 : STOP
 STEP.M 1.0 : STEP
 NULL.  -999.25 : NULL
 COMP.  ACME : COMPANY
 WELL.  A-1 : WELL
~Curve
 DEPT.M   : depth
 GR  .GAPI : gamma
~ASCII
 1.0  10.5
 2.0  20.5
 3.0  30.5
"""

path = os.path.join(tempfile.mkdtemp(), "demo3.las")
with open(path, "w", encoding="utf-8", newline="\n") as f:
    f.write(LAS)


def read(engine, opener):
    las = lasio.read(opener(), engine=engine)
    return [c.data.tolist() for c in las.curves], list(las.well.keys())


# Reference: the builtin open() gives the same curves with both engines.
builtin = lambda: open(path, "r", encoding="utf-8")
assert read("numpy", builtin) == read("normal", builtin)
expected = read("normal", builtin)
print("expected curves:", expected[0])

failed = False
for label, opener in [
    ("codecs.open(path, 'r', 'utf-8')", lambda: codecs.open(path, "r", "utf-8")),
    ("codecs.getreader('utf-8')(open(path, 'rb'))", lambda: codecs.getreader("utf-8")(open(path, "rb"))),
]:
    fast = read("numpy", opener)
    ref = read("normal", opener)
    print(label)
    print("   fast engine     :", fast[0], " ~Well items:", fast[1])
    print("   reference engine:", ref[0], " ~Well items:", ref[1])
    if fast != ref:
        failed = True

assert not failed, "fast and reference engine return different curves for the same open file object"
print("OK")
