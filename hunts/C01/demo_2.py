"""C01 demo 2: write(spacer=",") of a LASFile that has no DLM item is not re-readable.

Almost every LAS 1.2/2.0 file has no "DLM" line in ~Version (the item is a
LAS 3.0 idea which lasio adds only to LASFile objects created from scratch).
write() corrects the DLM item only when it is already there; for a LASFile
read from an ordinary file it writes comma separated (and NOT wrapped) data
without saying so, and the reader then splits on blanks: every column becomes
text such as '1.00000,', NaN is lost.
"""
import io
import logging

import numpy as np

import lasio

logging.disable(logging.CRITICAL)

ORDINARY_LAS2 = """~Version Information
VERS.   2.0 : CWLS LOG ASCII STANDARD - VERSION 2.0
WRAP.    NO : ONE LINE PER DEPTH STEP
~Well Information
STRT.M  1.0 : START
STOP.M  2.0 : STOP
STEP.M  1.0 : STEP
NULL. -999.25 : NULL
~Curve Information
DEPT.M      : depth
A   .       : a
B   .       : b
~ASCII
1.0  2.5  3.5
2.0  -999.25  5.5
"""
expected = np.array([[1.0, 2.5, 3.5], [2.0, np.nan, 5.5]])

failures = []
for spacer in (",", ", "):
    for engine in ("numpy", "normal"):
        las = lasio.read(ORDINARY_LAS2)
        assert "DLM" not in las.version  # like nearly all LAS 1.2/2.0 files
        buf = io.StringIO()
        las.write(buf, spacer=spacer)  # wrap is NO: this is not the known wrapped case
        text = buf.getvalue()
        print("=" * 70)
        print("spacer=%r engine=%s; written ~Version and data sections:" % (spacer, engine))
        print(text[: text.index("~Well")] + text[text.index("~ASCII"):])
        try:
            back = lasio.read(text, engine=engine)
        except Exception as exc:
            print("got     : %s: %s" % (type(exc).__name__, str(exc).strip().splitlines()[-1]))
            failures.append((spacer, engine))
            continue
        got = np.array(back.data)
        print("expected: float curves", expected.tolist())
        print("got     : dtype %s" % got.dtype, got.tolist())
        ok = (
            got.shape == expected.shape
            and got.dtype.kind == "f"
            and np.allclose(got, expected, atol=5e-6, equal_nan=True)
        )
        if not ok:
            failures.append((spacer, engine))

assert not failures, "C01 violated (comma separated output without a DLM item): %s" % failures
print("OK")
