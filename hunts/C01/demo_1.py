"""C01 demo 1: write(wrap=True) cuts a number that is longer than data_width in two.

textwrap.TextWrapper is used with its default break_long_words=True, so a
formatted value wider than `data_width` (a huge magnitude with the default
fmt="%.5f", or simply a small data_width) is split over two physical lines and
is read back as two values.
"""
import io
import logging

import numpy as np

import lasio

logging.disable(logging.CRITICAL)


def roundtrip(data, engine, **write_kwargs):
    las = lasio.LASFile()
    names = ["DEPT", "A", "B"]
    for j, name in enumerate(names):
        las.append_curve(name, data[:, j])
    buf = io.StringIO()
    las.write(buf, **write_kwargs)
    text = buf.getvalue()
    try:
        back = lasio.read(text, engine=engine)
    except Exception as exc:  # an unreadable file is a violation as well
        return text, exc
    return text, back


failures = []
cases = [
    # (description, data, write kwargs)
    (
        "finite float64 sample 1e80, default fmt and default data_width=79",
        np.array([[1.0, 1e80, 2.0], [2.0, 3.0, 4.0]]),
        dict(wrap=True),
    ),
    (
        "ordinary values, data_width=10 (smaller than one 11-character value)",
        np.array([[1.0, 12345.12345, 2.0], [2.0, 3.0, 4.0]]),
        dict(wrap=True, data_width=10),
    ),
    (
        "silent variant: three long values in a three-column file (token count stays a multiple of 3)",
        np.array([[1.0, 1e80, 2.0], [2.0, 1e80, 4.0], [3.0, 1e80, 5.0]]),
        dict(wrap=True),
    ),
]
for descr, data, kwargs in cases:
    for engine in ("numpy", "normal"):
        text, back = roundtrip(data, engine, **kwargs)
        print("=" * 70)
        print("case   :", descr, "| engine =", engine)
        print("written data section:")
        print(text[text.index("~ASCII"):])
        print("expected: 3 curves x %d rows, values %s" % (data.shape[0], data.tolist()))
        if isinstance(back, Exception):
            print("got     : %s: %s" % (type(back).__name__, str(back).strip().splitlines()[-1]))
            failures.append(descr)
            continue
        got = np.array(back.data)
        print("got     : %d curves, shape %s, dtype %s" % (len(back.curves), got.shape, got.dtype))
        print(got.tolist())
        ok = (
            got.shape == data.shape
            and got.dtype.kind == "f"
            and np.allclose(got, data, rtol=1e-12, atol=5e-6)
        )
        if not ok:
            failures.append(descr)

assert not failures, "C01 violated (number split by textwrap): %s" % sorted(set(failures))
print("OK")
