"""C01 demo 3: a truthy `wrap` that is not the object `True` (numpy.bool_, 1) wraps
the data but leaves "WRAP. NO" in the header.

writer.write() updates the WRAP item with `elif wrap is True:` / `elif wrap is
False:` but decides whether to wrap the data lines with `if wrap:`.  For
wrap=numpy.True_ (what any numpy comparison such as `n_curves > 6` or
`other.version.WRAP.value == np.str_("YES")` yields) the two disagree: the file says
WRAP NO, every depth step is spread over several lines, and the reader takes
every physical line for a row.
"""
import io
import logging

import numpy as np

import lasio

logging.disable(logging.CRITICAL)

n_rows, n_curves = 3, 14
data = np.arange(n_rows * n_curves, dtype=float).reshape(n_rows, n_curves) + 0.5

failures = []
for wrap in (np.bool_(True), np.array([n_curves])[0] > 6, 1):
    for engine in ("numpy", "normal"):
        las = lasio.LASFile()
        for j in range(n_curves):
            las.append_curve("DEPT" if j == 0 else "C%02d" % j, data[:, j])
        buf = io.StringIO()
        las.write(buf, wrap=wrap)
        text = buf.getvalue()
        back = lasio.read(text, engine=engine)
        got = np.array(back.data)
        print("=" * 70)
        print("wrap=%r (%s) engine=%s" % (wrap, type(wrap).__name__, engine))
        print([l for l in text.splitlines() if l.startswith("WRAP")][0])
        print("\n".join(text[text.index("~ASCII"):].splitlines()[:3]))
        print("expected: %d rows x %d curves, no NaN" % data.shape)
        print("got     : %d rows x %d curves, %d NaN; first row %s"
              % (got.shape[0], got.shape[1], int(np.isnan(got).sum()), got[0].tolist()))
        if got.shape != data.shape or not np.allclose(got, data, atol=5e-6):
            failures.append((repr(wrap), engine))

assert not failures, "C01 violated (WRAP NO header on wrapped data): %s" % failures
print("OK")
