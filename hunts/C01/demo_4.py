"""C01 demo 4: a LASFile read with mnemonic_case="preserve" from a file whose
~Version mnemonics are not upper case ("Vers.", "Wrap.") cannot be written
wrapped and read back.

writer.write() stores its WRAP/VERS items under the upper-case keys "WRAP" and
"VERS".  In a case-preserving section these do not replace "Wrap"/"Vers" but
are appended, so the output has two WRAP lines (Wrap NO, WRAP YES) and two
VERS lines.  On reading, the duplicates are renamed WRAP:1/WRAP:2, the test
`"WRAP" in sct_items` fails, the file counts as "WRAP not declared", and the
number of values per physical line (7) is taken for the number of columns.
"""
import io
import logging

import numpy as np

import lasio

logging.disable(logging.CRITICAL)

n_rows, n_curves = 3, 14
data = np.arange(n_rows * n_curves, dtype=float).reshape(n_rows, n_curves) + 0.5

source = (
    "~Version Information\n"
    "Vers.   2.0 : CWLS LOG ASCII STANDARD - VERSION 2.0\n"
    "Wrap.    NO : ONE LINE PER DEPTH STEP\n"
    "~Well Information\n"
    "STRT.M  0.5 : START\nSTOP.M 28.5 : STOP\nSTEP.M 14.0 : STEP\nNULL. -999.25 : NULL\n"
    "~Curve Information\n"
    + "".join("%s. : \n" % ("DEPT" if j == 0 else "C%02d" % j) for j in range(n_curves))
    + "~ASCII\n"
    + "\n".join(" ".join("%.1f" % v for v in row) for row in data)
    + "\n"
)

failures = []
for engine in ("numpy", "normal"):
    las = lasio.read(source, mnemonic_case="preserve")
    assert np.array_equal(las.data, data)
    buf = io.StringIO()
    las.write(buf, version=2.0, wrap=True)
    text = buf.getvalue()
    print("=" * 70)
    print("engine=%s; written ~Version section and first depth step:" % engine)
    print(text[: text.index("~Well")] + "\n".join(text[text.index("~ASCII"):].splitlines()[:3]))
    try:
        back = lasio.read(text, engine=engine)
    except Exception as exc:
        print("got     : %s: %s" % (type(exc).__name__, str(exc).strip().splitlines()[-1]))
        failures.append(engine)
        continue
    got = np.array(back.data)
    print("re-read ~Version keys:", back.version.keys())
    print("expected: %d rows x %d curves, no NaN" % data.shape)
    print("got     : %d rows x %d curves, %d NaN; first row %s"
          % (got.shape[0], got.shape[1], int(np.isnan(got).sum()), got[0].tolist()))
    if got.shape != data.shape or not np.allclose(got, data, atol=5e-6):
        failures.append(engine)

assert not failures, "C01 violated (duplicate WRAP/VERS items hide WRAP YES): %s" % failures
print("OK")
