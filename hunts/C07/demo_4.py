"""C07 demo 4: comma-delimited data (DLM COMMA): a quoted value that contains a comma is
split in two, every following value of the row moves one column to the right.

LAS 3.0: "Data items that themselves contain the delimiting character, must each be
entirely surrounded by a single pair of quotes".  The SPACE and TAB splitters honour
quotes, reader.define_line_splitter.split_on_comma is a bare line.split(",").
"""
import logging
import numpy as np
import lasio

logging.disable(logging.CRITICAL)

R = 3
def text_cell(i):
    return "r%d,c1" % i          # carries its own coordinates - and the delimiter

TEXT = """~Version Information
 VERS.   3.0   : CWLS LOG ASCII STANDARD - VERSION 3.0
 WRAP.   NO    : ONE LINE PER DEPTH STEP
 DLM .   COMMA : DELIMITING CHARACTER
~Well Information
 NULL.   -999.25 : NULL
~Curve Information
 DEPT.M   : depth
 LITH.    : text column {S}
 GR  .API : gamma
~ASCII
""" + "\n".join('%d.0,"%s",%d.5' % (i + 1, text_cell(i), 100 * (i + 1)) for i in range(R)) + "\n"

las = lasio.read(TEXT)
for c in las.curves:
    print("%-10s %s" % (c.mnemonic, list(c.data)))
print("expected: DEPT [1,2,3]; LITH ['r0,c1','r1,c1','r2,c1']; GR [100.5, 200.5, 300.5]; no further curve")

assert len(las.curves) == 3, "a fourth (unnamed) curve appeared: %s" % [c.mnemonic for c in las.curves]
assert [str(v).strip('"') for v in las.curves[1].data] == [text_cell(i) for i in range(R)], las.curves[1].data
assert np.allclose(np.asarray(las.curves[2].data, dtype=float), [100 * (i + 1) + 0.5 for i in range(R)])
