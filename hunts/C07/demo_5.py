"""C07 demo 5: tab-delimited data (DLM TAB): an absent value (two consecutive tabs) vanishes,
the values behind it move one column to the left.

LAS 3.0: "Comma and Tab delimited files only: Data items may be absent at any level, as
indicated by two consecutive delimiter characters. The value of this missing data item
must be taken as the NULL value".  The comma splitter keeps the empty field, the tab
splitter (regex [^\\t"']+ with findall) silently drops it; line.strip() additionally removes
a leading/trailing tab, i.e. an absent first/last item.
"""
import logging
import numpy as np
import lasio

logging.disable(logging.CRITICAL)

def cell(i, j):
    return (i + 1) * 100 + j + 0.25

HEAD = """~Version Information
 VERS.   3.0   : CWLS LOG ASCII STANDARD - VERSION 3.0
 WRAP.   NO    : ONE LINE PER DEPTH STEP
 DLM .   %s : DELIMITING CHARACTER
~Well Information
 NULL.   -999.25 : NULL
~Curve Information
 C0.M   : column 0
 C1.    : column 1
 C2.    : column 2
 C3.    : column 3
~ASCII
"""
R = 3

def body(sep, absent_rows):
    lines = []
    for i in range(R):
        vals = ["%.2f" % cell(i, j) for j in range(4)]
        if i in absent_rows:
            vals[1] = ""                      # item of column 1 is absent in this row
        lines.append(sep.join(vals))
    return "\n".join(lines) + "\n"

def check(las):
    if len(las.curves) != 4:
        return "%d curves" % len(las.curves)
    for j in (0, 2, 3):                       # columns which are complete in every row
        got = np.asarray(las.curves[j].data, dtype=float)
        exp = [cell(i, j) for i in range(R)]
        if got.shape != (R,) or not np.allclose(got, exp):
            return "curve C%d holds %s, expected %s" % (j, list(las.curves[j].data), exp)
    return None

problems = []
for dlm, sep in (("COMMA", ","), ("TAB", "\t")):
    for absent in ({0, 1, 2}, {1}):
        label = "DLM %-5s column 1 absent in rows %s" % (dlm, sorted(absent))
        try:
            las = lasio.read(HEAD % dlm + body(sep, absent))
            err = check(las)
            shown = {c.mnemonic: list(c.data) for c in las.curves}
        except Exception as exc:              # noqa
            err = "%s: %s" % (type(exc).__name__, str(exc).splitlines()[-1])
            shown = None
        print(label, "->", "OK" if err is None else "WRONG: " + err)
        if shown and err:
            for k, v in shown.items():
                print("        %-4s %s" % (k, v))
        if err:
            problems.append(label)

print("expected: C0, C2, C3 keep their own values (x00.25, x02.25, x03.25); C1 is null/empty where absent")
assert not problems, "columns displaced / read failed: %s" % problems
