"""C07 demo 3: a ~C section whose title contains an underscore is not taken as ~Curves.

LAS 1.2/2.0: "The first letter directly after the tilde identifies the section ...
The remainder of the line will be treated as comments."  So "~Curve_Information" (or
"~CURVE_INFORMATION") is the curve section.  lasio parses it with the curve parser but
files it under sections["Curve_Information"]; las.curves stays empty, all data columns
become unnamed curves and the declared mnemonics/units/descriptions are not bound to
any column.
"""
import logging
import numpy as np
import lasio

logging.disable(logging.CRITICAL)

def cell(i, j):
    return (i + 1) * 100 + j + 0.25

C, R = 3, 3
TEMPLATE = """~Version Information
 VERS.   2.0 : CWLS LOG ASCII STANDARD - VERSION 2.0
 WRAP.   NO  : ONE LINE PER DEPTH STEP
~Well Information
 NULL.   -999.25 : NULL
%s
 DEPT.M     : depth
 GR  .API   : gamma ray
 RHOB.K/M3  : density
~ASCII
""" + "\n".join(" ".join("%.2f" % cell(i, j) for j in range(C)) for i in range(R)) + "\n"

bad = []
for title in ("~Curve Information", "~C", "~Curve_Information", "~CURVE_INFORMATION"):
    for engine in ("numpy", "normal"):
        las = lasio.read(TEMPLATE % title, engine=engine)
        got = [(c.original_mnemonic, c.unit, c.descr) for c in las.curves]
        exp = [("DEPT", "M", "depth"), ("GR", "API", "gamma ray"), ("RHOB", "K/M3", "density")]
        data_ok = len(las.curves) == C and all(
            np.allclose(np.asarray(las.curves[j].data, dtype=float), [cell(i, j) for i in range(R)])
            for j in range(C)
        )
        ok = got == exp and data_ok
        print("%-22s engine=%-6s -> %s %s" % (title, engine, [c.mnemonic for c in las.curves],
                                            "OK" if ok else "WRONG (sections: %s)" % list(las.sections)))
        if not ok:
            bad.append((title, engine))

print("expected: curves DEPT [M], GR [API], RHOB [K/M3] bound to columns 0, 1, 2 for every title")
assert not bad, "declared curves lost (all columns unnamed) for %s" % bad
