"""C07 demo 1: null_policy='aggressive' / 'all' splits small negative values in two.

The "-0.0" null substitution (lasio/defaults.py NULL_SUBS["-0.0"]) rewrites the text
" -0.005" to " NaN 5": one value becomes two tokens, so every later value of the
row is displaced by one column (or the reshape fails when only some rows are hit).
"""
import logging
import numpy as np
import lasio

logging.disable(logging.CRITICAL)

# cell (row i, column j): column 0 = depth, column 1 = -0.00<i+1>, column 2 = 100*(i+1)+2
ROWS = 3
expected = [
    [float(i + 1) for i in range(ROWS)],
    [-0.001 * (i + 1) for i in range(ROWS)],
    [100.0 * (i + 1) + 2 for i in range(ROWS)],
]
data_lines = "\n".join(
    "%.1f %.3f %.1f" % (expected[0][i], expected[1][i], expected[2][i]) for i in range(ROWS)
)
TEXT = """~Version Information
 VERS.   2.0 : CWLS LOG ASCII STANDARD - VERSION 2.0
 WRAP.   NO  : ONE LINE PER DEPTH STEP
~Well Information
 STRT.M  1.0 : START
 STOP.M  3.0 : STOP
 STEP.M  1.0 : STEP
 NULL.   -999.25 : NULL
~Curve Information
 DEPT.M   : depth
 A   .V/V : small negative values
 B   .API : second curve
~ASCII
""" + data_lines + "\n"

failures = []
for policy in ("strict", "common", "aggressive", "all"):
    las = lasio.read(TEXT, null_policy=policy)
    names = [c.mnemonic for c in las.curves]
    got = [list(map(float, c.data)) for c in las.curves]
    print("null_policy=%-10s -> curves %s" % (policy, names))
    for n, g in zip(names, got):
        print("      %-10s %s" % (n, g))
    ok = (
        len(las.curves) == 3
        and len(set(len(c.data) for c in las.curves)) == 1
        and np.allclose(got[0], expected[0])
        and np.allclose(got[2], expected[2])          # B must stay in column 2
        and all(np.isnan(v) or np.isclose(v, e) for v, e in zip(got[1], expected[1]))
    )
    if not ok:
        failures.append(policy)

print()
print("expected for every policy: 3 curves DEPT, A, B with B = %s" % expected[2])
assert not failures, (
    "column displacement with null_policy in %s: '-0.00x' was rewritten to 'NaN x', "
    "B received the stray digit and its own values moved to an extra unnamed curve" % failures
)
print("OK")
