"""C07 demo 2: dtypes given as a dict + more data columns than declared curves -> IndexError.

The documentation of ``dtypes`` says: "If a dict you can specify only the curve
mnemonics you want to convert as a key."  LASFile.read() turns the dict into a list
with one entry per *declared* curve; the normal engine then indexes that list with
the number of every *data* column.  Surplus columns (c > d), which must become
additional unnamed curves, make the read fail instead.
"""
import logging
import numpy as np
import lasio

logging.disable(logging.CRITICAL)

def cell(i, j):
    return (i + 1) * 100 + j + 0.25

D, C, R = 2, 4, 3     # 2 declared curves, 4 data columns, 3 rows
TEXT = """~Version Information
 VERS.   2.0 : CWLS LOG ASCII STANDARD - VERSION 2.0
 WRAP.   NO  : ONE LINE PER DEPTH STEP
~Well Information
 NULL.   -999.25 : NULL
~Curve Information
 DEPT.M   : depth
 GR  .API : gamma
~ASCII
""" + "\n".join(" ".join("%.2f" % cell(i, j) for j in range(C)) for i in range(R)) + "\n"

def verify(las, label):
    assert len(las.curves) == C, "%s: %d curves, expected %d" % (label, len(las.curves), C)
    assert [c.original_mnemonic for c in las.curves] == ["DEPT", "GR", "", ""], label
    for j, curve in enumerate(las.curves):
        exp = [cell(i, j) for i in range(R)]
        assert np.allclose(np.asarray(curve.data, dtype=float), exp), (label, j, curve.data, exp)

# reference: without dtypes the surplus columns become unnamed curves, as the property demands
verify(lasio.read(TEXT), "dtypes='auto'")
print("dtypes='auto'          : OK, curves =", [c.mnemonic for c in lasio.read(TEXT).curves])

error = None
try:
    las = lasio.read(TEXT, dtypes={"GR": float})
    verify(las, "dtypes={'GR': float}")
    print("dtypes={'GR': float}   : OK")
except Exception as exc:          # noqa
    error = exc
    print("dtypes={'GR': float}   : FAILED with %s: %s" % (type(exc).__name__, exc))

print("expected: the same 4 curves (DEPT, GR, 2 unnamed) with the same data as with dtypes='auto'")
assert error is None, "read with a dtypes dict fails when the data section has surplus columns: %r" % (error,)
