"""C16 demo 1: STRT/STOP/STEP are always formatted with '%.5f', whatever
precision the index is written with (fmt= / column_fmt=), so for an index that
needs more than five decimals the refreshed STRT/STOP/STEP do not state the
written first/last index value and first increment."""
import io
import numpy as np
import lasio

# time index in days, one sample per second (1 s = 1.1574e-05 d)
t = np.arange(0, 11) / 86400.0
las = lasio.LASFile()
las.append_curve("TIME", t, unit="d", descr="elapsed time")
las.append_curve("GR", np.linspace(50, 60, 11), unit="gAPI")

buf = io.StringIO()
las.write(buf, fmt="%.10f")          # STRT/STOP/STEP left to lasio
text = buf.getvalue()

hdr = {}
for line in text.splitlines():
    for m in ("STRT", "STOP", "STEP"):
        if line.startswith(m):
            hdr[m] = line.split()[1]
rows = text[text.index("~ASCII"):].splitlines()[1:]
first, second, last = (float(rows[0].split()[0]), float(rows[1].split()[0]),
                       float(rows[-1].split()[0]))
print("written index: first=%.10f second=%.10f last=%.10f" % (first, second, last))
print("written header: STRT=%(STRT)s STOP=%(STOP)s STEP=%(STEP)s" % hdr)
print("expected      : STRT=%.10f STOP=%.10f STEP=%.10f" % (first, last, second - first))

tol = 0.5e-10      # the precision the index was written with
assert abs(float(hdr["STRT"]) - first) <= tol, "STRT != first written index value"
assert abs(float(hdr["STOP"]) - last) <= tol, \
    "STOP %s != last written index value %.10f" % (hdr["STOP"], last)
assert abs(float(hdr["STEP"]) - (second - first)) <= 2 * tol, \
    "STEP %s != first written increment %.10f" % (hdr["STEP"], second - first)
