"""C16 demo 2: a LASFile that was read without data rows (empty ~A section, or
read(..., ignore_data=True)) cannot be written at all, not even after the index
and the curves have been filled in memory: the refresh decision evaluates
index_initial[-1] on an empty array."""
import io
import numpy as np
import lasio

HEADER = """~Version
VERS. 2.0 : CWLS log ASCII Standard -VERSION 2.0
WRAP.  NO : One line per depth step
~Well
STRT.M    0.0 : START
STOP.M    0.0 : STOP
STEP.M    0.0 : STEP
NULL. -999.25 : NULL
WELL.  TEMPLATE : WELL
~Curve
DEPT.M    : depth
GR  .gAPI : gamma
~ASCII
"""
failures = []

# (a) header template with an empty data section, written as is
las = lasio.read(HEADER)
try:
    las.write(io.StringIO())
    print("(a) empty ~A section: written")
except Exception as exc:
    print("(a) empty ~A section: write() raised %r" % exc)
    failures.append("a")

# (b) header read with ignore_data=True, index and curve created in memory
las = lasio.read(HEADER.replace("~ASCII\n", "~ASCII\n1.0 10\n2.0 20\n"), ignore_data=True)
las.set_data(np.array([[100.0, 1.0], [100.5, 2.0], [101.0, 3.0]]))
try:
    buf = io.StringIO()
    las.write(buf)
    text = buf.getvalue()
    print("(b) ignore_data + set_data: written")
    print(text)
except Exception as exc:
    print("(b) ignore_data + set_data: write() raised %r" % exc)
    print("    expected: STRT.M 100.00000, STOP.M 101.00000, STEP.M 0.50000 and three data rows")
    failures.append("b")

assert not failures, "write() failed for LASFiles read without data rows: %s" % failures
