"""C16 demo 3: when the index curve holds text (time stamps, as in the
documented example data_characters.las) and STRT/STOP/STEP have to be
refreshed, write() raises TypeError instead of stating the first and last
index value."""
import io
import lasio

TEXT = """~Version
VERS. 2.0 : CWLS log ASCII Standard -VERSION 2.0
WRAP.  NO : One line per depth step
~Well
STRT.  00:00:00 : START INDEX
STOP.  00:00:03 : STOP INDEX
STEP.  0 : STEP
NULL.  -999.25 : NULL VALUE
~Curve
TIME.HHMMSS : time of day
DEPT.M      : bit depth
~ASCII
00:00:00 1500.0
00:00:01 1500.1
00:00:02 1500.2
00:00:03 1500.3
"""
# unchanged, consistent file: no refresh needed, this works
las = lasio.read(TEXT)
assert las.index.dtype.kind in "UO", las.index.dtype
las.write(io.StringIO())
print("unchanged file with a text index: written")

# the same file with the last row dropped in memory (index changed -> refresh)
las = lasio.read(TEXT)
for curve in las.curves:
    curve.data = curve.data[:-1]
buf = io.StringIO()
try:
    las.write(buf)
except Exception as exc:
    print("after dropping the last row: write() raised %r" % exc)
    print("expected: STRT 00:00:00 and STOP 00:00:02 in the output")
    raise AssertionError("write() cannot refresh STRT/STOP for a text index") from exc
text = buf.getvalue()
stop = [l for l in text.splitlines() if l.startswith("STOP")][0]
print(stop)
assert "00:00:02" in stop, "STOP does not state the last written index value"
