"""C16 demo 4: for a decreasing index stored in an unsigned integer dtype the
refreshed STEP is computed in that dtype and wraps around (65535 instead of
-1)."""
import io
import warnings
import numpy as np
import lasio

warnings.simplefilter("ignore")      # numpy only warns about the wrap-around
las = lasio.LASFile()
las.append_curve("DEPT", np.array([1200, 1199, 1198, 1197], dtype=np.uint16), unit="m")
las.append_curve("GR", np.array([50.0, 51.0, 52.0, 53.0]), unit="gAPI")
buf = io.StringIO()
las.write(buf)
text = buf.getvalue()
print(text)
step = float([l for l in text.splitlines() if l.startswith("STEP")][0].split()[1])
print("expected STEP -1.00000 (first increment of the written index), got %r" % step)
assert step == -1.0, "STEP %r is not the first increment (-1)" % step
