"""C11 demo 3: an index curve whose mnemonic ends in a period ("Dept..FT", the
abbreviated-mnemonic form lasio supports, cf. tests/examples/1.2/issue-264-dot-delimiter.las)
loses its unit in the first output and gets it back - next to the stray value -
in the second one, so the second re-read differs from the first.

cycle 1: the writer pads the mnemonic 'DEPT.' to the section width BEFORE the
         delimiter: 'DEPT.  .FT'.  Without the two adjacent periods the reader's
         double-dot rule no longer applies: mnemonic 'DEPT', unit '', value '.FT'.
cycle 2: write() -> update_units_from_index_curve() finds the index curve without
         a unit and copies STRT's unit into it: 'DEPT   .FT .FT'  -> unit 'FT'.
"""
import io
import logging

import lasio

logging.disable(logging.CRITICAL)

SRC = """~VERSION INFORMATION
 VERS.                  1.2:   CWLS LOG ASCII STANDARD -VERSION 1.2
 WRAP.                  NO:   ONE LINE PER DEPTH STEP
~WELL INFORMATION BLOCK
 STRT.FT       1670.000000:
 STOP.FT       1669.750000:
 STEP.FT           -0.1250:
 NULL.           -999.2500:
 WELL.                WELL:   ANY ET AL OIL WELL #12
~CURVE INFORMATION
Dept..FT                       : Depth
Speed.M/MIN                    : Speed
I. Res..OHM-M                  : I. Res.
~A
1670.000   9.5  123.450
1669.875   9.6  123.460
1669.750   9.7  123.470
"""

las = lasio.read(SRC)
print("L0 index curve: mnemonic=%r unit=%r value=%r" % (
    las.curves[0].original_mnemonic, las.curves[0].unit, las.curves[0].value))
seen = []
for k in (1, 2, 3):
    buf = io.StringIO()
    las.write(buf)
    text = buf.getvalue()
    las = lasio.read(text)
    c = las.curves[0]
    seen.append((c.original_mnemonic, c.unit, c.value, c.descr))
    line = [l for l in text.splitlines() if l.upper().startswith("DEPT")][0]
    print("T%d line: %-28r -> L%d mnemonic=%r unit=%r value=%r" % (k, line, k, c.original_mnemonic, c.unit, c.value))

print()
print("expected: L2 index curve item == L1 index curve item")
print("happened: L1 = %r" % (seen[0],))
print("          L2 = %r" % (seen[1],))
assert seen[0] == seen[1], "index curve item differs between first and second re-read"
