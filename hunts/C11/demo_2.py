"""C11 demo 2: non-ASCII header text GROWS on every load/save cycle through a file.

LASFile.write(<filename>) opens the file with the locale's encoding (UTF-8 on
Linux/macOS).  LASFile.read(<filename>) chooses the codec from the first 4000
bytes only (chardet), or - with chardet missing / autodetect_encoding=False -
from the list ascii, windows-1252, latin-1 (utf-8 is never tried).

(a) default options, header longer than 4000 characters (here: 70 curves), one
    degree sign after that point: chardet sees pure ASCII, the file is decoded
    as 'ascii' with errors='replace', every non-ASCII byte becomes U+FFFD; U+FFFD
    is written as three UTF-8 bytes, which come back as three U+FFFD ...
(b) autodetect_encoding=False (what every user without chardet gets): the UTF-8
    output is decoded as windows-1252, 'degC' -> mojibake, doubling each cycle.
"""
import logging
import os
import tempfile

import lasio

logging.disable(logging.CRITICAL)

CURVES = "".join(
    "C%02d .V/V   : curve number %d with a reasonably long description text\n" % (i, i)
    for i in range(70)
)
SRC = (
    "~Version\nVERS. 2.0 : CWLS LOG ASCII STANDARD - VERSION 2.0\nWRAP. NO  : ONE LINE PER DEPTH STEP\n"
    "~Well\nSTRT.M 1.0 : START\nSTOP.M 2.0 : STOP\nSTEP.M 1.0 : STEP\nNULL. -999.25 : NULL\n"
    "~Curves\nDEPT.M : depth\n" + CURVES +
    "~Params\nBHT .°C   35.5 : bottom hole temperature\n"
    "~ASCII\n1.0 " + " ".join(["0.5"] * 70) + "\n2.0 " + " ".join(["0.5"] * 70) + "\n"
)

tmp = tempfile.mkdtemp()


def run(label, input_encoding, **read_kw):
    path_in = os.path.join(tmp, "in.las")
    with open(path_in, "w", encoding=input_encoding) as f:
        f.write(SRC)
    las = lasio.read(path_in, **read_kw)
    units = [las.params.BHT.unit]
    path = os.path.join(tmp, "out.las")
    for _ in range(3):
        las.write(path)                      # documented usage: las.write('file.las')
        las = lasio.read(path, **read_kw)    # same read options every time
        units.append(las.params.BHT.unit)
    print(label)
    for k, u in enumerate(units):
        print("   L%d BHT unit = %r (%d chars)" % (k, u, len(u)))
    return units


a = run("(a) default read options, cp1252 input, degree sign after the first 4000 bytes:", "cp1252")
b = run("(b) autodetect_encoding=False, cp1252 input:", "cp1252", autodetect_encoding=False)

print()
print("expected: L2 unit == L1 unit (lasio's own output is a fixed point)")
print("happened: (a) %r -> %r -> %r ; (b) %r -> %r -> %r" % (a[1], a[2], a[3], b[1], b[2], b[3]))
assert a[1] == a[2] == a[3], "default options: unit grows from %d to %d to %d characters" % (
    len(a[1]), len(a[2]), len(a[3]))
assert b[1] == b[2] == b[3], "autodetect_encoding=False: unit grows %r -> %r" % (b[1], b[2])
