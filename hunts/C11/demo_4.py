"""C11 demo 4: a unit made of digits only ('1' = dimensionless "unit one", '100', ...)
swallows the value on re-read, and the emptied value then turns into 0.

The writer separates unit and value of the widest item of a section by exactly ONE
blank ('SW.1 0.3512 : ...').  The reader's unit pattern has a special case for
'1000 psi' - digits, one whitespace character, one more token all belong to the
unit - so the first re-read gives unit='1 0.3512', value=''.  On the next write
standardize_value() replaces the empty value of an item that has a unit by 0, so
the second re-read has value=0: value -> unit migration followed by a new value.
"""
import io
import logging

import lasio

logging.disable(logging.CRITICAL)

SRC = """~Version
VERS.   2.0 : CWLS LOG ASCII STANDARD - VERSION 2.0
WRAP.    NO : ONE LINE PER DEPTH STEP
~Well
STRT.M   1670.0 : START DEPTH
STOP.M   1669.0 : STOP DEPTH
STEP.M     -0.5 : STEP
NULL.   -999.25 : NULL VALUE
~Curves
DEPT.M     : DEPTH
GR  .GAPI  : GAMMA RAY
~Parameter
BS  .MM      200 : BIT SIZE
SW  .1    0.3512 : IRREDUCIBLE WATER SATURATION (FRACTION)
~ASCII
1670.0  45.1
1669.5  46.2
1669.0  47.3
"""

las = lasio.read(SRC)
it = las.params.SW
print("L0 SW: unit=%r value=%r descr=%r" % (it.unit, it.value, it.descr))
seen = []
for k in (1, 2, 3):
    buf = io.StringIO()
    las.write(buf)
    text = buf.getvalue()
    las = lasio.read(text)
    it = las.params[1]
    seen.append((it.original_mnemonic, it.unit, str(it.value), it.descr))
    line = [l for l in text.splitlines() if l.startswith("SW")][0]
    print("T%d line: %-62r -> L%d unit=%r value=%r" % (k, line, k, it.unit, it.value))

print()
print("expected: L2 item == L1 item (and unit '1', value 0.3512)")
print("happened: L1 = %r" % (seen[0],))
print("          L2 = %r" % (seen[1],))
assert seen[0] == seen[1], "parameter SW differs between first and second re-read"
