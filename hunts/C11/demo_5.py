"""C11 demo 5: read with null_policy='aggressive' (or 'all'), lasio cannot re-read its
own output as soon as a curve holds a value in the open interval (-0.01, 0).

The input writes such values the way the LAS 2.0 specification's own example does
('-.0015'), which the '-0.0' substitution of the aggressive policy leaves alone.
The writer normalises them to '%.5f' = '-0.00150'.  On re-read the pattern
    [ ](-0\\.00*[^1-9])          (defaults.NULL_SUBS['-0.0'])
matches only the PREFIX ' -0.00' of ' -0.00150' (the class [^1-9] happily takes a
'0') and replaces it by ' NaN ', leaving 'NaN 150': one value became two.
"""
import io
import logging

import numpy as np

import lasio

logging.disable(logging.CRITICAL)

SRC = """~Version
VERS.   2.0 : CWLS LOG ASCII STANDARD - VERSION 2.0
WRAP.    NO : ONE LINE PER DEPTH STEP
~Well
STRT.M   1670.0 : START DEPTH
STOP.M   1669.0 : STOP DEPTH
STEP.M     -0.5 : STEP
NULL.   -999.25 : NULL VALUE
~Curves
DEPT.M     : DEPTH
DRHO.G/CC  : DENSITY CORRECTION
GR  .GAPI  : GAMMA RAY
~ASCII
1670.0  -.0015  45.1
1669.5   .0100  46.2
1669.0  -.0042  47.3
"""

failed = []
for policy in ("strict", "common", "aggressive", "all"):
    las = lasio.read(SRC, null_policy=policy)
    first = las.data.copy()
    buf = io.StringIO()
    las.write(buf)
    try:
        again = lasio.read(buf.getvalue(), null_policy=policy)
        same = np.array_equal(again.data, first, equal_nan=True)
        print("null_policy=%-10r input read as %s ; own output re-read: %s" % (
            policy, first[:, 1].tolist(), "same data" if same else "DIFFERENT %s" % again.data.tolist()))
        if not same:
            failed.append(policy)
    except Exception as exc:
        print("null_policy=%-10r input read as %s ; own output re-read RAISED %s" % (
            policy, first[:, 1].tolist(), str(exc).strip().splitlines()[-1]))
        failed.append(policy)

# the same with a file of the test corpus (the LAS 2.0 wrapped example)
path = "tests/examples/2.0/sample_2.0_wrapped.las"
las = lasio.read(path, null_policy="aggressive")
buf = io.StringIO()
las.write(buf)
try:
    lasio.read(buf.getvalue(), null_policy="aggressive")
    print("%s: own output re-read" % path)
except Exception as exc:
    print("%s: own output re-read RAISED %s" % (path, str(exc).strip().splitlines()[-1]))
    failed.append(path)

print()
print("expected: lasio re-reads what it wrote, with the options the input was read with")
print("happened: failed for %s" % failed)
assert not failed, "own output not re-readable: %s" % failed
