"""C11 demo 1: STOP/STEP (and STRT) change at the SECOND load/save cycle when the
data are written with fewer decimals than the header values carry.

write() re-derives STRT/STOP/STEP only if `index_initial[-1] != STOP.value`.
In the first write nothing differs, so the header keeps the full-precision
numbers while the index column is rounded by `fmt`/`column_fmt`.  After the
re-read the rounded index no longer equals STOP, so the second write replaces
STRT/STOP/STEP by values computed from the rounded column.
"""
import io
import logging

import lasio

logging.disable(logging.CRITICAL)

SRC = """~Version
VERS.   2.0 : CWLS LOG ASCII STANDARD - VERSION 2.0
WRAP.    NO : ONE LINE PER DEPTH STEP
~Well
STRT.M  1670.0000 : START DEPTH
STOP.M  1670.4572 : STOP DEPTH
STEP.M     0.1524 : STEP
NULL.   -999.25   : NULL VALUE
~Curves
DEPT.M   : DEPTH
GR  .GAPI: GAMMA RAY
~ASCII
1670.0000  45.1
1670.1524  46.2
1670.3048  47.3
1670.4572  48.4
"""


def sss(las):
    return tuple(float(las.well[m].value) for m in ("STRT", "STOP", "STEP"))


def cycles(src, n, **write_kw):
    """STRT/STOP/STEP of L1, L2, ...: the re-reads of lasio's successive outputs.

    (Snapshot taken right after each read: write() modifies the object.)
    """
    las = lasio.read(src)
    out = []
    for _ in range(n):
        buf = io.StringIO()
        las.write(buf, **write_kw)
        las = lasio.read(buf.getvalue())
        out.append(sss(las))
    return out


failures = []
for label, src, kw in [
    ("fmt='%.2f'", SRC, {"fmt": "%.2f"}),
    ("column_fmt={0: '%.1f'}", SRC, {"column_fmt": {0: "%.1f"}}),
    # default options: an index with more than five decimals
    ("default fmt, 7-decimal index", SRC.replace("1670.0000", "1670.0000001")
        .replace("1670.1524", "1670.1524001").replace("1670.3048", "1670.3048001")
        .replace("1670.4572", "1670.4572001"), {}),
]:
    L1, L2, L3 = cycles(src, 3, **kw)
    print("%-32s first re-read  STRT/STOP/STEP = %s" % (label, L1))
    print("%-32s second re-read STRT/STOP/STEP = %s" % ("", L2))
    print("%-32s third re-read  STRT/STOP/STEP = %s" % ("", L3))
    if L1 != L2:
        failures.append(label)

print()
print("expected: the second re-read has the same STRT/STOP/STEP as the first re-read")
print("happened: they differ for: %s" % failures)
assert not failures, "STRT/STOP/STEP drift between cycle 1 and cycle 2: %s" % failures
