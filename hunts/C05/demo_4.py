"""C05 demo 4: the text handed to lasio.read() starts with a byte-order mark.

lasio reads a UTF-8 file with a BOM correctly *by file name* (open_with_codecs
switches to utf-8-sig).  The two other documented kinds of input - an open
file object and a string with the contents - keep the U+FEFF character when
the caller decoded the file as plain "utf-8" (the usual way).  The title scan
then does not recognise the first line '\\ufeff~Version' as a title:

Expected: the same result as reading the file by name.
Actual (no exception, no warning about it): every line of ~Version is dropped,
so VERS 1.2 / WRAP YES never steer the parsing: the ~Well items of this 1.2
file are read in 2.0 order (value and description swapped) and the wrapped
data are read as unwrapped rows.
"""
import os
import tempfile

import lasio

TEXT = """~Version
VERS. 1.2 : CWLS LOG ASCII STANDARD - VERSION 1.2
WRAP. YES : Multiple lines per depth step
~Well
STRT.M 1.0 : START
STOP.M 2.0 : STOP
STEP.M 1.0 : STEP
NULL. -999.25 : NULL
COMP. COMPANY : ACME
~Curve
DEPT.M : depth
GR.GAPI : gamma ray
~ASCII
1.0
10.0
2.0
-999.25
"""


def summary(las):
    return {
        "VERS": float(las.version["VERS"].value),
        "WRAP": las.version["WRAP"].value,
        "COMP": (las.well["COMP"].value, las.well["COMP"].descr),
        "DEPT": [str(v) for v in las.curves[0].data],
        "GR": [str(v) for v in las.curves[1].data],
    }


fd, path = tempfile.mkstemp(suffix=".las")
os.close(fd)
try:
    with open(path, "w", encoding="utf-8-sig") as f:
        f.write(TEXT)
    reference = summary(lasio.read(path))
    with open(path, "r", encoding="utf-8") as f:
        from_file_object = summary(lasio.read(f))
    with open(path, "r", encoding="utf-8") as f:
        from_string = summary(lasio.read(f.read()))
finally:
    os.unlink(path)

print("expected (read by name):     ", reference)
print("got (open file object):      ", from_file_object)
print("got (string with contents):  ", from_string)
assert reference["VERS"] == 1.2 and reference["GR"] == ["10.0", "nan"]
assert from_file_object == reference, (
    "the lines of ~Version were dropped / the other sections were read "
    "differently: %r" % (from_file_object,))
assert from_string == reference, from_string
print("OK")
