"""C05 demo 1: an underscore in the remainder of a ~C / ~P title line.

LAS 2.0: "The character immediately following the tilde character defines the
section with the remainder of the line being ignored."  lasio's own table
(docs/source/header-section.rst) says ~c/~C -> sections['Curves'] and
~p/~P -> sections['Parameter'].

Expected: '~Curve_Information' is the ~C section and '~Parameter_Information'
is the ~P section, exactly as '~Curve Information' / '~Parameter Information'.
Actual: both are filed as non-standard sections, las.curves / las.params stay
empty, and the data columns lose their mnemonics (UNKNOWN:1, UNKNOWN:2).
"""
import lasio

TEMPLATE = """~Version Information
VERS.   2.0 : CWLS LOG ASCII STANDARD - VERSION 2.0
WRAP.    NO : ONE LINE PER DEPTH STEP
~Well Information
STRT.M    1.0 : START
STOP.M    2.0 : STOP
STEP.M    1.0 : STEP
NULL. -999.25 : NULL
{curve_title}
DEPT.M      : depth
GR  .GAPI   : gamma ray
{param_title}
BHT .DEGC 35.5 : bottom hole temperature
~Other
free text
~ASCII
1.0 10.0
2.0 -999.25
"""


def summary(las):
    return {
        "section keys": sorted(las.sections.keys()),
        "curves": [c.mnemonic for c in las.curves],
        "params": [(p.mnemonic, p.value) for p in las.params],
    }


reference = summary(lasio.read(TEMPLATE.format(
    curve_title="~Curve Information", param_title="~Parameter Information")))
got = summary(lasio.read(TEMPLATE.format(
    curve_title="~Curve_Information", param_title="~Parameter_Information (RUN_1)")))

print("expected (same as with blanks in the titles):")
print("   ", reference)
print("got with '~Curve_Information' / '~Parameter_Information (RUN_1)':")
print("   ", got)

assert got["curves"] == ["DEPT", "GR"], (
    "the items under '~Curve_Information' were not attributed to the ~C "
    "section: las.curves = %r" % got["curves"])
assert got["params"] == reference["params"], (
    "the items under '~Parameter_Information (RUN_1)' were not attributed to "
    "the ~P section: las.params = %r" % got["params"])
assert got["section keys"] == reference["section keys"], got["section keys"]
print("OK")
