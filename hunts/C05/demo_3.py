"""C05 demo 3: reading from an open file object made by codecs.open().

lasio.read() documents "an open file object" as input, and the encodings page
of the documentation points to codecs.open.  The title scan records the start
of every section with file_obj.tell(); for a codecs.StreamReaderWriter (and a
codecs.StreamReader) tell() is the position of the *underlying byte stream*,
which is ahead of the text delivered so far because the reader reads ahead.
Every later seek(k) therefore lands somewhere after the title line.

Expected: the same sections as when the file is read by name.
Actual: no exception; ~Well and ~Curve come back empty, ~Parameter empty,
the data lose their mnemonics and the NULL value is not applied.
"""
import codecs
import os
import tempfile

import lasio

TEXT = """~Version
VERS.   2.0 : CWLS LOG ASCII STANDARD - VERSION 2.0
WRAP.    NO : ONE LINE PER DEPTH STEP
~Well
STRT.M    1.0 : START
STOP.M    2.0 : STOP
STEP.M    1.0 : STEP
NULL. -999.25 : NULL
COMP.    ACME : COMPANY
~Curve
DEPT.M      : depth
GR  .GAPI   : gamma ray
~Parameter
BHT .DEGC 35.5 : bottom hole temperature
~Other
free text
~ASCII
1.0 10.0
2.0 -999.25
"""


def summary(las):
    out = {}
    for key, sect in las.sections.items():
        if isinstance(sect, str):
            out[key] = sect
        else:
            out[key] = [(i.mnemonic, i.unit, str(i.value), i.descr) for i in sect]
    out["data"] = [[str(v) for v in c.data] for c in las.curves]
    return out


fd, path = tempfile.mkstemp(suffix=".las")
os.close(fd)
try:
    with open(path, "w", encoding="utf-8") as f:
        f.write(TEXT)
    reference = summary(lasio.read(path))
    with codecs.open(path, "r", encoding="utf-8") as f:
        got = summary(lasio.read(f))
finally:
    os.unlink(path)

bad = [k for k in reference if got.get(k) != reference[k]]
for k in reference:
    print("%-10s expected %r" % (k, reference[k]))
    print("%-10s got      %r" % ("", got.get(k)))
assert not bad, "sections read differently from a codecs.open() object: %r" % bad
print("OK")
