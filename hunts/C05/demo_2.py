"""C05 demo 2: a ~Other title line that is indented.

LAS 1.2 and 2.0: '~' is a flag "when it occurs as the first non-space
character on a line".  lasio's title scan (reader.find_sections_in_file) and
its header-item and data readers accept an indented title; only the ~Other
loop in LASFile.read() tests the *unstripped* line.

Expected: las.other == the three free-text lines under the title.
Actual: the title line itself is stored as the first line of the text and the
last line of the section ("last line") is dropped.
"""
import lasio

TEXT = """~Version
 VERS.   2.0 : CWLS LOG ASCII STANDARD - VERSION 2.0
 WRAP.    NO : ONE LINE PER DEPTH STEP
 ~Well
 STRT.M    1.0 : START
 STOP.M    2.0 : STOP
 STEP.M    1.0 : STEP
 NULL. -999.25 : NULL
 ~Curve
 DEPT.M      : depth
 GR  .GAPI   : gamma ray
 ~Other
 first line
 second line
 last line
 ~Parameter
 BHT .DEGC 35.5 : bottom hole temperature
 ~ASCII
 1.0 10.0
 2.0 -999.25
"""

las = lasio.read(TEXT)
# The indentation is harmless for every other kind of section:
assert [c.mnemonic for c in las.curves] == ["DEPT", "GR"]
assert [p.mnemonic for p in las.params] == ["BHT"]
assert list(las["GR"][:1]) == [10.0]

expected = "first line\nsecond line\nlast line"
print("expected las.other:", repr(expected))
print("got      las.other:", repr(las.other))
assert "~Other" not in las.other, (
    "the title line was read as a text line of its own section: %r" % las.other)
assert "last line" in las.other, (
    "the last line of the ~Other section was dropped: %r" % las.other)
assert las.other == expected
print("OK")
