"""C05 demo 5: a DOS end-of-file character (Ctrl-Z) after a header section.

The data readers deliberately drop chr(26) ("The data readers drop the DOS
end-of-file character"), so a file which ends '...last data row\\n\\x1a' is
read.  The property allows ~A anywhere after ~V; then the last section of the
file is a header section and the same end-of-file mark is parsed as a header
item.

Expected: the file is read like the same file without the Ctrl-Z (LAS 2.0:
characters outside 32..126 should be treated as a space by readers).
Actual: LASHeaderError 'Line 16 (section ~Parameter): "\\x1a"' - nothing of the
file is read.
"""
import lasio

TEXT = """~Version
VERS.   2.0 : CWLS LOG ASCII STANDARD - VERSION 2.0
WRAP.    NO : ONE LINE PER DEPTH STEP
~Well
STRT.M    1.0 : START
STOP.M    2.0 : STOP
STEP.M    1.0 : STEP
NULL. -999.25 : NULL
~ASCII
1.0 10.0
2.0 -999.25
~Curve
DEPT.M      : depth
GR  .GAPI   : gamma ray
~Parameter
BHT .DEGC 35.5 : bottom hole temperature
"""


def summary(las):
    return {
        "curves": [c.mnemonic for c in las.curves],
        "params": [(p.mnemonic, float(p.value)) for p in las.params],
        "GR": [str(v) for v in las["GR"]],
    }


# Control: with ~A last the end-of-file character is harmless.
head, data = TEXT.split("~ASCII\n1.0 10.0\n2.0 -999.25\n")
control = lasio.read(head + data + "~ASCII\n1.0 10.0\n2.0 -999.25\n\x1a\n")
reference = summary(lasio.read(TEXT))
assert summary(control) == reference
print("expected:", reference)

try:
    got = summary(lasio.read(TEXT + "\x1a\n"))
except Exception as exc:  # noqa
    print("got     : %s: %s" % (type(exc).__name__, exc))
    raise AssertionError(
        "a Ctrl-Z after the last header section makes the whole read fail, "
        "although the same mark after ~A is dropped") from exc
print("got     :", got)
assert got == reference
print("OK")
