"""C06 defect 4: samples of a text column which look like a number (NULL in another spelling) are
re-spelled on reading - text columns are not left untouched, not even with null_policy='none'."""
import logging
import numpy as np
import lasio

logging.disable(logging.CRITICAL)
assert lasio.__file__.startswith("/tmp/hunt-C06"), lasio.__file__

TEXT = """~Version
 VERS. 2.0 :
 WRAP. NO  :
~Well
 STRT.M 1 :
 STOP.M 4 :
 STEP.M 1 :
 NULL. -999.25 : null value
~Curve
 DEPT.M :
 CODE. : a text column (sample codes)
 GR.   :
~ASCII
 1.0  A-17       -999.25
 2.0  -999.2500  55.5
 3.0  -9.9925E2  60.0
 4.0  -999.25    -999.2500
"""
expected_code = ["A-17", "-999.2500", "-9.9925E2", "-999.25"]
failed = []
for policy in ("strict", "none"):
    for engine in ("numpy", "normal"):
        las = lasio.read(TEXT, null_policy=policy, engine=engine)
        code = [str(v) for v in las["CODE"]]
        print("null_policy=%s engine=%s" % (policy, engine))
        print("   expected CODE (untouched text):", expected_code)
        print("   got                           :", code)
        gr_nan = np.isnan(las["GR"]).tolist()
        assert gr_nan == ([True, False, False, True] if policy == "strict" else [False] * 4), gr_nan
        if code != expected_code:
            failed.append((policy, engine))

assert not failed, "text samples equal to NULL in another spelling were rewritten: %r" % failed
