"""C06 defect 1: with a text column in the file, NaN is written as 'nan', not as the NULL value."""
import io
import logging
import numpy as np
import lasio

logging.disable(logging.CRITICAL)
assert lasio.__file__.startswith("/tmp/hunt-C06"), lasio.__file__

TEXT = """~Version
 VERS. 2.0 :
 WRAP. NO  :
~Well
 STRT.M 1 :
 STOP.M 3 :
 STEP.M 1 :
 NULL. -999.25 : null value
~Curve
 DEPT.M :
 GR.   :
 LITH. : a text column
 RHOB. :
~ASCII
 1.0  -999.25  SAND  2.5
 2.0  55.5     SHALE -999.25
 3.0  60.0     SAND  2.7
"""

las = lasio.read(TEXT)
assert las["LITH"].dtype.kind == "U"
nan_before = {(c.mnemonic, i) for c in las.curves if c.data.dtype.kind == "f"
              for i in np.flatnonzero(np.isnan(c.data))}
print("NaN positions after reading:", sorted(nan_before))
assert nan_before == {("GR", 0), ("RHOB", 1)}

buf = io.StringIO()
las.write(buf)
out = buf.getvalue()
data_lines = out[out.index("~ASCII"):].splitlines()[1:]
print("written data section:")
for line in data_lines:
    print("   ", line)

tokens = [line.split() for line in data_lines]
print("expected: the NaN samples (GR row 0, RHOB row 1) are written as the current NULL value -999.25")
print("got     : GR row 0 -> %r, RHOB row 1 -> %r" % (tokens[0][1], tokens[1][3]))

# what a reader sees that does no NULL handling (null_policy='none'): the original
# file had the number -999.25 there, the rewritten file has not-a-number.
las_none = lasio.read(out, null_policy="none")
print("re-read with null_policy='none': GR =", list(las_none["GR"]), " RHOB =", list(las_none["RHOB"]))

assert float(tokens[0][1]) == -999.25, "NaN was written as %r instead of NULL (-999.25)" % tokens[0][1]
assert float(tokens[1][3]) == -999.25, "NaN was written as %r instead of NULL (-999.25)" % tokens[1][3]
