"""C06 defect 2: with the default fmt a near-NULL sample is written with the same digits as NULL,
so it turns into NaN after write -> read (the set of NaN positions grows)."""
import io
import logging
import numpy as np
import lasio

logging.disable(logging.CRITICAL)
assert lasio.__file__.startswith("/tmp/hunt-C06"), lasio.__file__

TEMPLATE = """~Version
 VERS. 2.0 :
 WRAP. NO  :
~Well
 STRT.M 1 :
 STOP.M 3 :
 STEP.M 1 :
 NULL. {null} : null value
~Curve
 DEPT.M :
 A.   :
~ASCII
 1.0  {near}
 2.0  {null}
 3.0  4.0
"""

failures = []
for null, near in [("0", "0.000004"), ("-999.25", "-999.250004"), ("-9999", "-9999.000001")]:
    las = lasio.read(TEMPLATE.format(null=null, near=near))
    before = np.isnan(las["A"]).tolist()
    assert before == [False, True, False], before     # near-NULL sample is data, NULL sample is NaN
    buf = io.StringIO()
    las.write(buf)                                     # all defaults
    las2 = lasio.read(buf.getvalue())
    after = np.isnan(las2["A"]).tolist()
    print("NULL=%s near-NULL sample=%s" % (null, near))
    print("   expected NaN mask after write->read:", before)
    print("   got                                :", after, " values:", list(las2["A"]))
    if before != after:
        failures.append((null, near))

assert not failures, "a near-NULL sample became NaN in a write->read cycle for %r" % failures
