"""C06 defect 3: mnemonic_case='preserve' and a lower-case 'null' mnemonic in ~Well:
the NULL value is not applied on reading, and NaN cannot be written."""
import io
import logging
import numpy as np
import lasio

logging.disable(logging.CRITICAL)
assert lasio.__file__.startswith("/tmp/hunt-C06"), lasio.__file__

TEXT = """~Version
 VERS. 2.0 :
 WRAP. NO  :
~Well
 STRT.M 1 :
 STOP.M 3 :
 STEP.M 1 :
 null. -999.25 : null value
~Curve
 dept.M :
 gr.   :
~ASCII
 1.0  -999.25
 2.0  55.5
 3.0  -9.9925E2
"""
expected = [True, False, True]
failed = []
for engine in ("numpy", "normal"):
    ref = np.isnan(lasio.read(TEXT, engine=engine)["GR"]).tolist()          # default: mnemonic_case='upper'
    low = np.isnan(lasio.read(TEXT, engine=engine, mnemonic_case="lower")["gr"]).tolist()
    las = lasio.read(TEXT, engine=engine, mnemonic_case="preserve")
    got = np.isnan(las["gr"]).tolist()
    print("engine=%s" % engine)
    print("   ~Well null item as read :", las.well["null"])
    print("   expected NaN mask of gr :", expected, "(mnemonic_case='upper' gives", ref, ", 'lower' gives", low, ")")
    print("   got (preserve)          :", got, " values:", list(las["gr"]))
    if got != expected:
        failed.append(engine)

# the write half: a NaN cannot be emitted as the NULL value at all
las = lasio.read(TEXT, mnemonic_case="preserve")
las["gr"][1] = np.nan
try:
    buf = io.StringIO()
    las.write(buf)
    print("write: ok")
except KeyError as exc:
    print("write of a NaN sample fails: KeyError", exc)
    failed.append("write")

assert not failed, "NULL from the lower-case 'null' item is ignored with mnemonic_case='preserve': %r" % failed
