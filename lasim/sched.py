"""Schedulers for simulated clients (DESIGN 2.4).

OpScheduler: picks which client performs its next operation (decision list from the `sched` stream).
LineScheduler: every client runs on a real thread, a single baton is passed through a condition variable, and
sys.settrace line events in frames whose code lives under <repo>/lasio/ are the pre-emption points.  Exactly one
thread runs at any time, and the decision whether to switch (and to whom) is drawn from a seeded PRNG in event order,
so the execution is a deterministic function of the seed."""
import os
import random
import sys
import threading

from .core import REPO

LASIO_DIR = os.path.join(REPO, "lasio") + os.sep


class SchedulerError(Exception):
    pass


class LineScheduler(object):
    def __init__(self, seed, prob=0.01, max_switches=5000):
        self.rng = random.Random(seed)
        self.prob = prob
        self.max_switches = max_switches
        self.cond = threading.Condition()
        self.current = None
        self.live = []
        self.switches = 0
        self.points = 0
        self.trace_digest = 0
        self.errors = {}
        self.done = {}

    # -- called inside client threads -----------------------------------------------------------------
    def _local(self, frame, event, arg):
        if event == "line":
            self.points += 1
            if self.switches < self.max_switches and len(self.live) > 1 and self.rng.random() < self.prob:
                me = self.current
                others = [c for c in self.live if c != me]
                nxt = others[self.rng.randrange(len(others))]
                self.switches += 1
                self.trace_digest = (self.trace_digest * 1000003 + self.points * 7919 + int(me) * 31 + int(nxt)) & 0xFFFFFFFFFFFF
                self._handover(me, nxt)
        return self._local

    def _global(self, frame, event, arg):
        if event == "call" and frame.f_code.co_filename.startswith(LASIO_DIR):
            return self._local
        return None

    def _handover(self, me, nxt):
        with self.cond:
            self.current = nxt
            self.cond.notify_all()
            while self.current != me:
                if not self.cond.wait(timeout=60):
                    raise SchedulerError("baton lost (client %r waited 60 s)" % (me,))

    def _body(self, cid, fn):
        with self.cond:
            while self.current != cid:
                if not self.cond.wait(timeout=60):
                    self.errors[cid] = SchedulerError("never scheduled")
                    return
        sys.settrace(self._global)
        try:
            fn()
        except BaseException as e:          # reported by the caller
            self.errors[cid] = e
        finally:
            sys.settrace(None)
            with self.cond:
                self.live.remove(cid)
                self.done[cid] = True
                if self.live:
                    self.current = self.live[self.rng.randrange(len(self.live))]
                else:
                    self.current = None
                self.cond.notify_all()

    # -- driver ------------------------------------------------------------------------------------------
    def run(self, clients):
        """clients: list of (cid, callable).  Returns when all have finished."""
        self.live = [cid for cid, _ in clients]
        threads = [threading.Thread(target=self._body, args=(cid, fn), name="client-%s" % cid, daemon=True) for cid, fn in clients]
        for t in threads:
            t.start()
        with self.cond:
            self.current = self.live[0]
            self.cond.notify_all()
        for t in threads:
            t.join(timeout=120)
            if t.is_alive():
                raise SchedulerError("client thread did not finish within 120 s (deadlock in the scheduler?)")
        return self.errors
