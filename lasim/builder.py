"""Build in-memory LASFile objects through the public API from JSON-able specs (DESIGN 2.2)."""
import numpy as np


def arr(values):
    """JSON list -> float64 array; None marks NaN; strings 'inf'/'-inf' not used."""
    return np.array([np.nan if v is None else v for v in values], dtype=float)


def hex_arr(values):
    """list of float.hex() strings / None -> float64 array (exact transport of floats in JSON)."""
    return np.array([np.nan if v is None else float.fromhex(v) for v in values], dtype=float)


def build_las(spec):
    """spec = {"curves":[{"mnem","unit","value","descr","data":[...]}], "well":[[m,u,v,d]...],
    "params":[[m,u,v,d]...], "other": str, "del_well":[mnem...], "del_version":[mnem...],
    "version": 1.2|2.0|None, "wrap": "YES"|"NO"|None, "null": number|None}"""
    import lasio
    las = lasio.LASFile()
    if spec.get("version") is not None:
        las.version["VERS"].value = spec["version"]
    if spec.get("wrap") is not None:
        las.version["WRAP"].value = spec["wrap"]
    if spec.get("null") is not None:
        las.well["NULL"].value = spec["null"]
    for (m, u, v, d) in spec.get("well", []):
        if m in las.well.keys():
            it = las.well[m]
            it.unit, it.value, it.descr = u, v, d
        else:
            las.well.append(lasio.HeaderItem(m, u, v, d))
    for (m, u, v, d) in spec.get("params", []):
        las.params.append(lasio.HeaderItem(m, u, v, d))
    if spec.get("other") is not None:
        las.other = spec["other"]
    for c in spec.get("curves", []):
        data = c["data"]
        if c.get("hex"):
            a = hex_arr(data)
        elif c.get("text"):
            a = np.array(data)
        else:
            a = arr(data)
        las.append_curve(c["mnem"], a, unit=c.get("unit", ""), descr=c.get("descr", ""), value=c.get("value", ""))
    for m in spec.get("del_well", []):
        del las.well[m]
    for m in spec.get("del_version", []):
        del las.version[m]
    return las


def simple_spec(ncurves=3, nrows=4, nan_cells=(), unit="M"):
    curves = []
    for j in range(ncurves):
        data = []
        for i in range(nrows):
            if (i, j) in nan_cells or [i, j] in nan_cells:
                data.append(None)
            else:
                data.append(i * 0.5 if j == 0 else (i * 10 + j) * 1.25)
        curves.append({"mnem": "DEPT" if j == 0 else "C%d" % j, "unit": unit if j == 0 else "U%d" % j,
                       "value": "", "descr": "curve %d" % j, "data": data})
    return {"curves": curves, "well": [["COMP", "", "ACME OIL", "COMPANY"], ["WELL", "", "W-1", "WELL"]],
            "params": [["BHT", "DEGC", 35.5, "BOTTOM HOLE TEMP"]], "other": "Some free text."}
