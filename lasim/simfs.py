"""SimFS: an in-memory raw device + file namespace under the virtual mount /simfs/.

lasio  -> io.TextIOWrapper (real) -> io.BufferedReader/Writer (real) -> SimRaw (stub)

Every low-level operation (open, getsize, raw read, seek, write, close) draws the next
global event sequence number.  A fault plan maps sequence numbers (or (kind, n-th of kind))
to an errno; delivery policy decides how many bytes a raw read returns / a raw write
accepts (all legal for a raw device).
"""
import builtins
import errno as _errno
import io
import os
import os.path
import random

MOUNT = "/simfs/"

_real_open = builtins.open
_real_io_open = io.open
_real_getsize = os.path.getsize
_real_os_open = os.open
_real_os_read = os.read
_real_os_close = os.close
FD_BASE = 1000000              # descriptors handed out by the simulated os.open (never a real descriptor)


class Policy(object):
    """Stream delivery policy (recorded as a small record, not per call)."""

    def __init__(self, kind="full", max_read=0, max_write=0, buffer=8192, chunk=8192, io_seed=0):
        self.kind = kind            # full | bounded | random
        self.max_read = max_read    # bytes per raw read when bounded / upper bound when random
        self.max_write = max_write  # bytes per raw write accepted (0 = all)
        self.buffer = buffer        # BufferedReader/Writer buffer size
        self.chunk = chunk          # TextIOWrapper._CHUNK_SIZE
        self.io_seed = io_seed
        self.rng = random.Random(io_seed)

    def to_json(self):
        return {"kind": self.kind, "max_read": self.max_read, "max_write": self.max_write,
                "buffer": self.buffer, "chunk": self.chunk, "io_seed": self.io_seed}

    @staticmethod
    def from_json(d):
        if d is None:
            return Policy()
        return Policy(**d)

    @staticmethod
    def draw(rng):
        """Swarm: most runs use ordinary delivery, some use tiny buffers/short reads."""
        r = rng.random()
        if r < 0.35:
            return Policy()
        kind = rng.choice(["bounded", "random", "full"])
        return Policy(kind=kind,
                      max_read=rng.choice([1, 2, 3, 5, 7, 16, 64, 500]),
                      max_write=rng.choice([0, 0, 1, 3, 7, 64]),
                      buffer=rng.choice([1, 2, 4, 16, 128, 8192]),
                      chunk=rng.choice([1, 2, 3, 7, 32, 8192]),
                      io_seed=rng.randrange(1 << 30))

    def n_read(self, want):
        if self.kind == "full" or want <= 1:
            return want
        if self.kind == "bounded":
            return max(1, min(want, self.max_read))
        return self.rng.randint(1, max(1, min(want, self.max_read)))

    def n_write(self, want):
        if self.max_write <= 0 or want <= 1:
            return want
        if self.kind == "random":
            return self.rng.randint(1, max(1, min(want, self.max_write)))
        return max(1, min(want, self.max_write))


class Handle(object):
    __slots__ = ("hid", "path", "mode", "owner", "top", "raw", "opened_seq")

    def __init__(self, hid, path, mode, owner, opened_seq):
        self.hid = hid
        self.path = path
        self.mode = mode
        self.owner = owner     # "lasio" (opened through the patched open) | "caller"
        self.top = None        # outermost object handed out
        self.raw = None
        self.opened_seq = opened_seq

    @property
    def closed(self):
        return bool(self.top.closed) if self.top is not None else True


class SimRaw(io.RawIOBase):
    def __init__(self, fs, handle, inode, mode):
        super(SimRaw, self).__init__()
        self.fs = fs
        self.handle = handle
        self.inode = inode          # bytearray
        self.pos = 0
        self._mode = mode
        self._r = "r" in mode
        self._w = "w" in mode or "a" in mode or "+" in mode
        self.name = handle.path

    def readable(self):
        return self._r

    def writable(self):
        return self._w

    def seekable(self):
        return True

    def readinto(self, b):
        self.fs._event("read", self.handle)
        n = len(b)
        avail = len(self.inode) - self.pos
        if avail <= 0 or n == 0:
            return 0
        k = self.fs.policy.n_read(min(n, avail))
        if k < min(n, avail):
            self.fs.count("short-read")
        b[:k] = self.inode[self.pos:self.pos + k]
        self.pos += k
        return k

    def write(self, b):
        self.fs._event("write", self.handle)
        data = bytes(b)
        k = self.fs.policy.n_write(len(data))
        if k < len(data):
            self.fs.count("short-write")
        data = data[:k]
        end = self.pos + len(data)
        if self.pos > len(self.inode):
            self.inode.extend(b"\0" * (self.pos - len(self.inode)))
        self.inode[self.pos:end] = data
        self.pos = end
        return len(data)

    def seek(self, offset, whence=0):
        self.fs._event("seek", self.handle)
        if whence == 0:
            p = offset
        elif whence == 1:
            p = self.pos + offset
        else:
            p = len(self.inode) + offset
        if p < 0:
            raise OSError(_errno.EINVAL, "negative seek")
        self.pos = p
        return p

    def tell(self):
        return self.pos

    def truncate(self, size=None):
        if size is None:
            size = self.pos
        del self.inode[size:]
        return size

    def close(self):
        if self.closed:
            return
        # like close(2): the descriptor is released even when close reports an error
        super(SimRaw, self).close()
        self.fs._event("close", self.handle)


class SimFS(object):
    """File namespace + handle table + op log + fault plan."""

    def __init__(self, policy=None, faults=None, log_ops=False):
        self.files = {}            # path -> bytearray
        self.dirs = set()          # paths that name a directory
        self.fds = {}              # simulated descriptor -> Handle (os.open / os.read / os.close)
        self.handles = []
        self.policy = policy or Policy()
        self.seq = 0               # the simulator's only clock
        self.kind_counts = {}
        # fault plan: list of {"at": seq, "errno": name} or {"kind": k, "nth": n, "errno": name}
        self.faults = [dict(f) for f in (faults or [])]
        self.fired = []
        self.counts = {}
        self.oplog = [] if log_ops else None
        self.owner = "lasio"       # who is opening right now
        self.installed = False

    # -- bookkeeping -----------------------------------------------------------------
    def count(self, k, n=1):
        self.counts[k] = self.counts.get(k, 0) + n

    def _event(self, kind, handle=None):
        self.seq += 1
        kc = self.kind_counts.get(kind, 0) + 1
        self.kind_counts[kind] = kc
        if self.oplog is not None:
            self.oplog.append((self.seq, kind, handle.hid if handle else None))
        for f in self.faults:
            if f.get("done"):
                continue
            hit = False
            if "at" in f:
                hit = f["at"] == self.seq
            elif f.get("kind") == kind and f.get("nth") == kc:
                hit = True
            if hit:
                f["done"] = True
                en = f.get("errno", "EIO")
                self.fired.append((self.seq, kind, en))
                self.count("fault:%s:%s" % (kind, en))
                raise OSError(getattr(_errno, en), "simulated %s on %s #%d" % (en, kind, self.seq))

    # -- namespace -------------------------------------------------------------------
    @staticmethod
    def is_sim(path):
        try:
            p = os.fspath(path)
        except TypeError:
            return False
        return isinstance(p, str) and p.startswith(MOUNT)

    def store(self, path, data):
        assert isinstance(data, (bytes, bytearray))
        self.files[path] = bytearray(data)

    def store_text(self, path, text, codec="utf-8", newline="\n"):
        if newline != "\n":
            text = text.replace("\n", newline)
        self.store(path, text.encode(codec))

    def getbytes(self, path):
        return bytes(self.files[path])

    def gettext(self, path, codec="utf-8"):
        return self.getbytes(path).decode(codec)

    def getsize(self, path):
        self._event("getsize")
        p = os.fspath(path)
        if p in self.dirs:
            return 4096
        if p not in self.files:
            raise FileNotFoundError(_errno.ENOENT, "No such file (simfs)", p)
        return len(self.files[p])

    def open(self, file, mode="r", buffering=-1, encoding=None, errors=None, newline=None,
             closefd=True, opener=None):
        path = os.fspath(file)
        self._event("open")
        if path in self.dirs:
            raise IsADirectoryError(_errno.EISDIR, "Is a directory (simfs)", path)
        binary = "b" in mode
        m = mode.replace("b", "").replace("t", "")
        if m not in ("r", "w"):
            raise ValueError("simfs supports modes r/w only, got %r" % (mode,))
        if m == "r":
            if path not in self.files:
                raise FileNotFoundError(_errno.ENOENT, "No such file (simfs)", path)
        else:
            self.files[path] = bytearray()
        h = Handle(len(self.handles), path, mode, self.owner, self.seq)
        raw = SimRaw(self, h, self.files[path], m)
        h.raw = raw
        bs = self.policy.buffer if buffering in (-1, None) or buffering <= 0 else buffering
        if buffering == 0 and binary:
            top = raw
        else:
            buf = io.BufferedReader(raw, bs) if m == "r" else io.BufferedWriter(raw, bs)
            if binary:
                top = buf
            else:
                if encoding is None:
                    encoding = "utf-8"   # locale default of this sandbox; fixed for determinism
                top = io.TextIOWrapper(buf, encoding=encoding, errors=errors, newline=newline)
                try:
                    top._CHUNK_SIZE = max(1, int(self.policy.chunk))
                except Exception:
                    pass
                top.mode = mode
        h.top = top
        self.handles.append(h)
        return top

    # -- descriptor level (os.open / os.read / os.close on simulated paths) -----------------------------------
    def fd_open(self, path, flags, mode=0o777):
        path = os.fspath(path)
        self._event("open")
        writing = bool(flags & (os.O_WRONLY | os.O_RDWR))
        if path not in self.files and path not in self.dirs:
            if not (flags & os.O_CREAT):
                raise FileNotFoundError(_errno.ENOENT, "No such file (simfs)", path)
            self.files[path] = bytearray()
        h = Handle(len(self.handles), path, "fd:w" if writing else "fd:r", self.owner, self.seq)
        raw = SimRaw(self, h, self.files.get(path, bytearray()), "w" if writing else "r")
        h.raw = raw
        h.top = raw
        self.handles.append(h)
        fd = FD_BASE + h.hid
        self.fds[fd] = h
        self.count("os.open")
        return fd

    def fd_read(self, fd, n):
        h = self.fds[fd]
        if h.path in self.dirs:
            self._event("read", h)
            raise IsADirectoryError(_errno.EISDIR, "Is a directory (simfs)", h.path)
        buf = bytearray(n)
        k = h.raw.readinto(buf) or 0
        return bytes(buf[:k])

    def fd_close(self, fd):
        h = self.fds.pop(fd)
        h.raw.close()

    def open_as_caller(self, *a, **k):
        prev = self.owner
        self.owner = "caller"
        try:
            return self.open(*a, **k)
        finally:
            self.owner = prev

    # -- patching ----------------------------------------------------------------------
    def install(self):
        fs = self

        def sim_open(file, *a, **k):
            if SimFS.is_sim(file):
                return fs.open(file, *a, **k)
            return _real_open(file, *a, **k)

        def sim_getsize(path):
            if SimFS.is_sim(path):
                return fs.getsize(path)
            return _real_getsize(path)

        def sim_os_open(path, flags, mode=0o777, **kw):
            if SimFS.is_sim(path):
                return fs.fd_open(path, flags, mode)
            return _real_os_open(path, flags, mode, **kw)

        def sim_os_read(fd, n):
            if fd in fs.fds:
                return fs.fd_read(fd, n)
            return _real_os_read(fd, n)

        def sim_os_close(fd):
            if fd in fs.fds:
                return fs.fd_close(fd)
            return _real_os_close(fd)

        builtins.open = sim_open
        io.open = sim_open
        os.path.getsize = sim_getsize
        os.open, os.read, os.close = sim_os_open, sim_os_read, sim_os_close
        self.installed = True
        return self

    def uninstall(self):
        builtins.open = _real_open
        io.open = _real_io_open
        os.path.getsize = _real_getsize
        os.open, os.read, os.close = _real_os_open, _real_os_read, _real_os_close
        self.installed = False

    def __enter__(self):
        return self.install()

    def __exit__(self, *exc):
        self.uninstall()
        return False

    # -- observation ---------------------------------------------------------------------
    def open_handles(self, owner=None):
        return [h for h in self.handles if not h.closed and (owner is None or h.owner == owner)]
