"""Option swarm helpers: keyword arguments that are semantically neutral (explicit spellings of the documented defaults,
or options that cannot matter for a conformant document), drawn per run so that correctness never silently depends on the
shape of the call."""

NEUTRAL_READ = [
    {"ignore_comments": ("#",)}, {"ignore_comments": "#"}, {"ignore_comments": ["#"]}, {"ignore_data_comments": "#"},
    {"read_policy": "default"}, {"null_policy": "strict"}, {"dtypes": "auto"}, {"accept_regexp_sub_recommendations": True},
    {"use_normal_engine_for_wrapped": True}, {"ignore_data": False}, {"ignore_header_errors": False},
]
NEUTRAL_WRITE = [
    {"fmt": "%.5f"}, {"spacer": " "}, {"lhs_spacer": " "}, {"data_width": 79}, {"header_width": 60}, {"column_fmt": None},
    {"len_numeric_field": None}, {"data_section_header": "~ASCII"}, {"mnemonics_header": False}, {"STRT": None},
    {"STOP": None, "STEP": None}, {"column_fmt": {}},
]


def neutral_read_kw(g, exclude=()):
    out = {}
    if g.random() < 0.35:
        for d in g.sample(NEUTRAL_READ, g.randint(1, 2)):
            for k, v in d.items():
                if k not in exclude:
                    out[k] = list(v) if isinstance(v, tuple) else v
    return out


def neutral_write_kw(g, present=()):
    out = {}
    if g.random() < 0.35:
        for d in g.sample(NEUTRAL_WRITE, g.randint(1, 2)):
            for k, v in d.items():
                if k not in present:
                    out[k] = v
    return out


def fix_kw(kw):
    """JSON turns tuples into lists and int keys into strings; restore what lasio expects."""
    kw = dict(kw)
    if isinstance(kw.get("ignore_comments"), list):
        kw["ignore_comments"] = tuple(kw["ignore_comments"])
    if isinstance(kw.get("column_fmt"), dict):
        kw["column_fmt"] = {int(k): v for k, v in kw["column_fmt"].items()}
    return kw
