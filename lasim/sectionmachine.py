"""Section history machine (DESIGN B.2): drives a real lasio SectionItems and a plain-list model with the
same seeded operation sequence.  Used by C13 (naming invariants), C15 (lookup views) and C17 (checkpoint /
restart / clone landing after any prefix)."""
import copy
import pickle
import re

import numpy as np

from . import canon as C
from .simfs import SimFS, Policy

NAMES = ["A", "a", "B", "", "A:1", "A:2", "UNKNOWN", "7", " ", "b", "GR", "Gr", "_ID", "SW%", "P%s", "Gr\u00f6\u00dfe", "\u00b5S"]
NAMES_PLAIN = ["A", "a", "B", "", "UNKNOWN", "7", " ", "b", "GR", "Gr", "_ID", "SW%", "P%s", "Gr\u00f6\u00dfe", "\u00b5S"]     # steer away from F-C13-1
NAMES_FILE = ["A", "a", "B", "", "UNKNOWN", "X7", "b", "GR", "Gr", "DT", "_ID", "SW%"]
PROBE_KEYS = NAMES + ["A:3", "B:1", "UNKNOWN:1", "unknown", "zz", "a:1", "gr", "_id", "_ID:1", "_x", "__len__x", "GR\u00d6SSE", "gr\u00f6\u00dfe", "\u03bcs", "\u039cS"]
UNITS = ["", "M", "US/F", "K/M3"]
VALUES = ["", "x y", 1, "15_9", -7, 250, np.nan]       # np.nan: the one shared float object (identity is lost by pickling)
DESCRS = ["", "d one", "two three"]
SUFFIX = re.compile(r"^(.*):(\d+)$")


def useful(n):
    return "UNKNOWN" if n.strip() == "" else n


def same(a, b, ci):
    return a.upper() == b.upper() if ci else a == b


def fresh_sessions(names, ci):
    """Session names a fresh sequence of appends of these originals receives (written from the statement:
    items sharing a name are numbered :1..:n in section order, unique names are left untouched)."""
    us = [useful(n) for n in names]
    out = []
    for i, u in enumerate(us):
        grp = [j for j, v in enumerate(us) if same(u, v, ci)]
        out.append(u if len(grp) == 1 else "%s:%d" % (u, grp.index(i) + 1))
    return out


def suffix_hazard(names, ci=True):
    """Input-side predicate of known finding F-C13-1: some name looks like a generated suffix `X:<k>` while X
    itself (or a blank, for X = UNKNOWN) is also used as a name."""
    us = [useful(n) for n in names]
    for u in us:
        m = SUFFIX.match(u)
        if m and any(same(m.group(1), v, True) for v in us):
            return True
    return False


class SectionMachine(object):
    """Holds the real section `s` (bare or inside a LASFile) and the model list `M` of records
    {"item": <the real item object>, "orig": str}; `ever_shared` = useful names ever borne by >= 2 items."""

    def __init__(self, base, res, check13=True, check15=True, las=None):
        import lasio
        self.lasio = lasio
        self.res = res
        self.check13 = check13
        self.check15 = check15
        self.las = None
        self.kind = base["kind"]
        self.ci = bool(base.get("transforms"))
        self.step = -1
        self.uid = 0
        self.deleted_or_replaced = False
        if self.kind == "bare":
            self.s = lasio.SectionItems()
        else:
            self.las = las if las is not None else lasio.LASFile()
            self.s = {"well": self.las.well, "params": self.las.params, "curves": self.las.curves,
                      "version": self.las.version}[self.kind]
        if las is not None:
            self.ci = bool(self.s.mnemonic_transforms)
        elif self.ci:
            self.s.mnemonic_transforms = True
        self.M = [{"item": it, "orig": it.original_mnemonic} for it in list.__iter__(self.s)]
        self.ever_shared = set()
        self.nrows = 3

    # -- helpers ----------------------------------------------------------------------------------
    def fail(self, oracle, msg):
        self.res.violate(oracle, "step %d: %s | originals=%r sessions=%r" % (
            self.step, msg, [m["orig"] for m in self.M], [it.mnemonic for it in list.__iter__(self.s)]), step=self.step)

    def new_item(self, name, k=0):
        self.uid += 1
        u, v, d = UNITS[k % len(UNITS)], VALUES[(k // 2) % len(VALUES)], DESCRS[(k // 3) % len(DESCRS)]
        if self.kind == "curves":
            return self.lasio.CurveItem(name, u, v, d, np.arange(self.nrows, dtype=float) + 100.0 * self.uid)
        return self.lasio.HeaderItem(name, u, v, d)

    def real_items(self):
        return list(list.__iter__(self.s))

    @staticmethod
    def cit(it):
        """Canonical item for frame conditions: header fields with their types, and the samples of a curve item."""
        d = C.citem(it, strict=True)
        data = getattr(it, "data", None)
        if data is not None:
            d["data"] = C.cdata(data)
        return d

    def snapshot(self):
        return [(id(it), it.mnemonic, it.original_mnemonic, it.unit, repr(it.value), it.descr) for it in self.real_items()]

    def first(self, key):
        for it in self.real_items():
            if isinstance(key, str) and same(it.mnemonic, key, self.ci):
                return it
        return None

    def note_shared(self):
        us = [useful(m["orig"]) for m in self.M]
        for u in us:
            if sum(1 for v in us if same(u, v, self.ci)) > 1:
                self.ever_shared.add(u.upper() if self.ci else u)

    # -- invariants (C13) ------------------------------------------------------------------------------
    def check_structure(self):
        """The real section holds exactly the model's item objects, in the model's order."""
        real = self.real_items()
        if len(real) != len(self.M) or any(a is not m["item"] for a, m in zip(real, self.M)):
            self.fail("C13.structure" if self.check13 else "C15.structure",
                      "section content differs from the list model: real=%r" % ([it.mnemonic for it in real],))
            return False
        return True

    def check_c13(self, inserted=None):
        real = self.real_items()
        names = [it.mnemonic for it in real]
        # I6 originals untouched by disambiguation
        for it, m in zip(real, self.M):
            if it.original_mnemonic != m["orig"]:
                self.fail("C13.original-altered", "original mnemonic %r became %r" % (m["orig"], it.original_mnemonic))
        # I1 pairwise distinct
        seen = {}
        for i, n in enumerate(names):
            k = n.upper() if self.ci else n
            if k in seen:
                self.fail("C13.distinct", "session mnemonic %r borne by items #%d and #%d" % (n, seen[k], i))
                break
            seen[k] = i
        # I2 each name resolves to its own item
        for i, it in enumerate(real):
            try:
                got = self.s[it.mnemonic]
            except Exception as e:
                got = e
            if got is not it:
                self.fail("C13.resolve", "s[%r] does not return item #%d (got %r)" % (it.mnemonic, i, _d(got)))
                break
            try:
                got = getattr(self.s, it.mnemonic)
            except Exception as e:
                got = e
            if got is not it and it.mnemonic not in dir(list):
                self.fail("C13.resolve", "getattr(s, %r) does not return item #%d (got %r)" % (it.mnemonic, i, _d(got)))
                break
            if self.kind == "curves":
                try:
                    got = self.las[it.mnemonic]
                except Exception as e:
                    got = e
                if got is not it.data:
                    self.fail("C13.resolve", "las[%r] is not the data of curve #%d (got %r)" % (it.mnemonic, i, _d(got)))
                    break
        # I3 blank => UNKNOWN
        for it in real:
            if it.original_mnemonic.strip() == "" and not re.match(r"^UNKNOWN(:\d+)?$", it.mnemonic):
                self.fail("C13.blank", "blank original mnemonic shows as %r" % (it.mnemonic,))
        # I4 numbering right after an insertion
        if inserted is not None:
            u = useful(inserted)
            grp = [it for it in real if same(useful(it.original_mnemonic), u, self.ci)]
            if len(grp) > 1:
                want = ["%s:%d" % (useful(it.original_mnemonic), k + 1) for k, it in enumerate(grp)]
                got = [it.mnemonic for it in grp]
                if got != want:
                    self.fail("C13.numbering", "after inserting %r the group is named %r, expected %r" % (inserted, got, want))
        # I5 names that were always unique are left untouched
        for it in real:
            u = useful(it.original_mnemonic)
            if (u.upper() if self.ci else u) not in self.ever_shared and it.mnemonic != u:
                self.fail("C13.unique-untouched", "always-unique %r shows as %r" % (u, it.mnemonic))

    # -- operations --------------------------------------------------------------------------------------
    def apply(self, op, step):
        self.step = step
        kind = op[0]
        s, M = self.s, self.M
        r = self.res
        r.count("op:" + kind)
        inserted = None
        if kind == "append":
            it = self.new_item(op[1], step)
            name = op[1]
            if step % 4 == 3 and name.strip() and name not in dir(list) and self.first(name) is None and name != "mnemonic_transforms":
                setattr(s, name, it)               # attribute assignment of an item under a new name appends it
            else:
                s.append(it)
            M.append({"item": it, "orig": op[1]})
            inserted = op[1]
        elif kind == "insert":
            it = self.new_item(op[2], step)
            s.insert(op[1], it)
            M.insert(op[1], {"item": it, "orig": op[2]})
            inserted = op[2]
        elif kind == "recopy":
            # the section goes through pickle / copy and the history continues on the copy (same case handling expected)
            if self.check13 and self.las is not None:
                r.count("op-skipped")
                return
            how = op[1]
            new = copy.deepcopy(s) if how == "deepcopy" else (copy.copy(s) if how == "copy" else pickle.loads(pickle.dumps(s, int(how))))
            items = list(list.__iter__(new))
            if len(items) != len(M):
                self.fail("C15.structure", "a %s copy of the section holds %d items, the section %d" % (how, len(items), len(M)))
                return
            if self.las is not None:
                if self.kind not in ("well", "params", "curves", "version"):
                    r.count("op-skipped")
                    return
                setattr(self.las, self.kind, new)           # the LASFile now holds the copy
            self.s = new
            self.M = [{"item": it, "orig": m["orig"]} for it, m in zip(items, M)]
            s, M = self.s, self.M
        elif kind == "move":
            # an item object that already lived in the section (and may carry a suffix) is taken out and put back elsewhere
            if not M:
                r.count("op-skipped")
                return
            i = op[1] % len(M)
            rec = M[i]
            got = s.pop(i)
            del M[i]
            if got is not rec["item"]:
                self.fail("C15.int-key", "pop(%d) returned another item" % i)
            if op[3]:
                s.append(rec["item"])
                M.append(rec)
            else:
                s.insert(op[2], rec["item"])
                M.insert(op[2], rec)
            inserted = rec["orig"]
            self.deleted_or_replaced = True
        elif kind in ("del_idx", "pop"):
            if not M:
                r.count("op-skipped")
                return
            i = op[1] % len(M) if op[1] >= 0 else -((-op[1] - 1) % len(M)) - 1
            if kind == "pop":
                got = s.pop(i)
                if got is not M[i]["item"]:
                    self.fail("C15.int-key", "pop(%d) returned another item" % i)
            else:
                del s[i]
            del M[i]
            self.deleted_or_replaced = True
        elif kind == "del_key":
            if not M:
                r.count("op-skipped")
                return
            j = op[1] % len(M)
            key = M[j]["item"].mnemonic
            tgt = self.first(key)
            del s[key]
            idx = [k for k, m in enumerate(M) if m["item"] is tgt]
            if idx:
                del M[idx[0]]
            self.deleted_or_replaced = True
        elif kind == "replace":
            if not M:
                r.count("op-skipped")
                return
            j = op[1] % len(M)
            key = M[j]["item"].mnemonic
            tgt = self.first(key)
            it = self.new_item(op[2], step)
            how = op[3] if len(op) > 3 else False
            if how == "ix" and self.kind == "curves" and self.las is not None:
                tgt = M[j]["item"]                 # LASFile.replace_curve_item addresses a position (either sign)
                self.las.replace_curve_item(j if step % 2 else j - len(M), it)
            elif how:
                s.set_item(key, it)
            else:
                s[key] = it
            idx = [k for k, m in enumerate(M) if m["item"] is tgt]
            if idx:
                M[idx[0]] = {"item": it, "orig": op[2]}
            self.deleted_or_replaced = True
        elif kind == "set_value":
            if not M:
                r.count("op-skipped")
                return
            j = op[1] % len(M)
            key = M[j]["item"].mnemonic
            tgt = self.first(key)
            before = [self.cit(it) for it in self.real_items()]
            if op[3] == "attr" and key not in dir(list) and key != "mnemonic_transforms":
                setattr(s, key, op[2])
            elif op[3] == "int":
                s[j] = op[2]
                tgt = M[j]["item"]
            else:
                s[key] = op[2]
            after = [self.cit(it) for it in self.real_items()]
            ti = [k for k, it in enumerate(self.real_items()) if it is tgt]
            if self.check15 and ti:
                exp = copy.deepcopy(before)
                exp[ti[0]]["value"] = C.cval_strict(op[2])
                if after != exp:
                    self.fail("C15.set-value", "s[%r] = %r changed more/less than that item's value: %s" % (
                        key, op[2], "; ".join(C.diff(exp, after))))
        elif kind == "rename":
            if not M:
                r.count("op-skipped")
                return
            j = op[1] % len(M)
            M[j]["item"].mnemonic = op[2]          # rename through the item itself (the section is not told)
            M[j]["orig"] = op[2]
            self.deleted_or_replaced = True
        elif kind == "get_default_item":
            self.op_get_default_item(op[1], op[2], op[3])
        elif kind == "get":
            self.op_get(op[1], op[2])
        elif kind in ("probe", "probe_int", "probe_slice"):
            before = self.snapshot()
            if kind == "probe":
                self.op_probe(op[1])
            elif kind == "probe_int":
                self.op_probe_int(op[1])
            else:
                self.op_probe_slice(op[1], op[2], op[3])
            after = self.snapshot()
            if after != before and self.check15:
                self.fail("C15.probe-changed-section", "reading %r changed the section: %r -> %r" % (
                    op, [b[1] for b in before], [a[1] for a in after]))
        elif kind == "del_absent":
            self.op_del_absent(op[1])
        else:
            raise ValueError("unknown op %r" % (op,))
        self.note_shared()
        if self.check_structure() and self.check13:
            self.check_c13(inserted)

    # -- C15 probes ---------------------------------------------------------------------------------------
    def op_probe(self, key):
        s = self.s
        exp = self.first(key)
        try:
            inn = key in s
        except Exception as e:
            inn = e
        if inn is not (exp is not None):
            self.fail("C15.contains", "(%r in s) is %r but first item with that session name is %s" % (
                key, inn, "present" if exp is not None else "absent"))
        try:
            got = s[key]
        except KeyError:
            got = KeyError
        except Exception as e:
            got = e
        if exp is None:
            if got is not KeyError:
                self.fail("C15.getitem", "s[%r] for a missing key gave %r instead of KeyError" % (key, _d(got)))
        elif got is not exp:
            self.fail("C15.getitem", "s[%r] did not return the first item with that session name (got %r)" % (key, _d(got)))
        if key not in dir(list) and key != "mnemonic_transforms":
            try:
                got = getattr(s, key)
            except AttributeError:
                got = AttributeError
            except Exception as e:
                got = e
            if exp is not None and got is not exp:
                self.fail("C15.getattr", "getattr(s, %r) did not return the same item as s[%r] (got %r)" % (key, key, _d(got)))
            if exp is None and isinstance(got, self.lasio.HeaderItem):
                self.fail("C15.getattr", "getattr(s, %r) returned an item for a missing key" % (key,))
        self.res.count("probe:" + ("present" if exp is not None else "absent"))

    def op_get(self, key, add):
        s = self.s
        exp = self.first(key)
        before = [self.cit(it) for it in self.real_items()]
        ids_before = self.real_items()
        got = s.get(key, add=True) if add else s.get(key)
        ids_after = self.real_items()
        after = [self.cit(it) for it in ids_after]
        if exp is not None:
            if got is not exp:
                self.fail("C15.get", "get(%r) did not return the present item" % (key,))
            if after != before or len(ids_after) != len(ids_before):
                self.fail("C15.get", "get(%r, add=%r) on a present key changed the section" % (key, add))
        elif not add:
            if len(ids_after) != len(ids_before) or any(a is not b for a, b in zip(ids_before, ids_after)) or after != before:
                self.fail("C15.get", "get(%r) without add changed the section: %s" % (key, "; ".join(C.diff(before, after))))
        else:
            nf_before = [dict(b, session=None) for b in before]
            nf_after = [dict(b, session=None) for b in after]
            ok = (len(ids_after) == len(ids_before) + 1 and all(a is b for a, b in zip(ids_before, ids_after))
                  and ids_after[-1] is got and got.original_mnemonic == key and nf_after[:-1] == nf_before)
            if not ok:
                self.fail("C15.get", "get(%r, add=True) on a missing key did not append exactly one item named %r" % (key, key))
            if len(ids_after) == len(ids_before) + 1:
                self.M.append({"item": ids_after[-1], "orig": ids_after[-1].original_mnemonic})
        self.res.count("get:" + ("present" if exp is not None else ("absent-add" if add else "absent")))

    def op_get_default_item(self, key, j, add):
        """get(key, default=<an item>, add=...) where the default is a member of the section (j >= 0) or a fresh item."""
        s = self.s
        real = self.real_items()
        member = bool(real) and j >= 0
        default = real[j % len(real)] if member else self.new_item("DFLT", 5)
        exp = self.first(key)
        before = [self.cit(it) for it in real]
        dflt_before = self.cit(default)
        got = s.get(key, default, add=True) if add else s.get(key, default)
        after_items = self.real_items()
        after = [self.cit(it) for it in after_items]
        if exp is not None:
            if got is not exp or after != before:
                self.fail("C15.get", "get(%r, default=<item>) on a present key did not just return the present item" % (key,))
            self.res.count("get-default-item:present")
            return
        if not add:
            if len(after_items) != len(real) or any(a is not b for a, b in zip(real, after_items)) or after != before:
                self.fail("C15.get", "get(%r, default=<%s item>) without add changed the section: %s" % (
                    key, "member" if member else "fresh", "; ".join(C.diff(before, after))))
        else:
            nf = lambda lst: [dict(b, session=None) for b in lst]
            ok = (len(after_items) == len(real) + 1 and all(a is b for a, b in zip(real, after_items)) and after_items[-1] is got
                  and got is not default and got.original_mnemonic == key and nf(after[:-1]) == nf(before))
            if not ok:
                self.fail("C15.get", "get(%r, default=<%s item>, add=True) did not append exactly one new item named %r: %s" % (
                    key, "member" if member else "fresh", key, "; ".join(C.diff(nf(before), nf(after[:-1]))) or [it.mnemonic for it in after_items]))
            if len(after_items) == len(real) + 1:
                self.M.append({"item": after_items[-1], "orig": after_items[-1].original_mnemonic})
            else:
                self.M = [{"item": it, "orig": it.original_mnemonic} for it in after_items]
        if dict(self.cit(default), session=None) != dict(dflt_before, session=None) and not (add and member):
            self.fail("C15.get", "get(%r, default=<item>) modified the default item it was given" % (key,))
        if isinstance(got, self.lasio.HeaderItem) and got.original_mnemonic != key:
            self.fail("C15.get", "get(%r, default=<item>) returned an item named %r" % (key, got.original_mnemonic))
        self.res.count("get-default-item:" + ("add" if add else "noadd"))

    def op_probe_int(self, i):
        s = self.s
        real = self.real_items()
        n = len(real)
        try:
            got = s[i]
        except IndexError:
            got = IndexError
        except Exception as e:
            got = e
        if -n <= i < n:
            if got is not real[i]:
                self.fail("C15.int-key", "s[%d] is not list position %d (got %r)" % (i, i, _d(got)))
        elif got is not IndexError:
            self.fail("C15.int-key", "s[%d] out of range gave %r instead of IndexError" % (i, _d(got)))
        self.res.count("probe-int:" + ("in" if -n <= i < n else "out"))

    def op_probe_slice(self, a, b, c):
        s = self.s
        real = self.real_items()
        sl = slice(a, b, c)
        got = s[sl]
        want = real[sl]
        if len(got) != len(want) or any(x is not y for x, y in zip(list.__iter__(got), want)):
            self.fail("C15.slice", "s[%r:%r:%r] differs from list slicing" % (a, b, c))
        self.res.count("probe-slice")

    def op_del_absent(self, key):
        if self.first(key) is not None:
            self.res.count("op-skipped")
            return
        before = self.real_items()
        try:
            del self.s[key]
            got = None
        except KeyError:
            got = KeyError
        except Exception as e:
            got = e
        after = self.real_items()
        if got is not KeyError:
            self.fail("C15.del-missing", "del s[%r] for a missing key gave %r instead of KeyError" % (key, _d(got)))
        if len(before) != len(after) or any(a is not b for a, b in zip(before, after)):
            self.fail("C15.del-missing", "del s[%r] for a missing key changed the section" % (key,))
            self.M = [{"item": it, "orig": it.original_mnemonic} for it in after]
        self.res.count("del-absent")


def _same_group_exists(before, key, ci):
    u = useful(key)
    return any(same(useful(b["orig"]), u, ci) for b in before)


def _d(x):
    if isinstance(x, type):
        return x.__name__
    if isinstance(x, BaseException):
        return "%s(%s)" % (type(x).__name__, str(x)[:80])
    if hasattr(x, "mnemonic"):
        return "<item %s>" % x.mnemonic
    return repr(x)[:80]


# ---------------------------------------------------------------------------------------------------------
# generators
# ---------------------------------------------------------------------------------------------------------
def gen_ops(g, n, names, c15=False):
    ops = []
    used = []

    def key():
        """Probe keys biased towards names that (probably) exist: used names, their suffixed and re-cased forms."""
        if used and g.random() < 0.6:
            u = useful(g.choice(used))
            q = g.random()
            if q < 0.32:
                return u
            if q < 0.38:
                return g.choice([u + " ", " " + u, u + "\t"])      # a present name with a stray blank is another key
            if q < 0.7:
                return "%s:%d" % (u, g.randint(1, 3))
            if q < 0.85:
                return u.swapcase()
            return "%s:%d" % (u.swapcase(), g.randint(1, 2))
        return g.choice(PROBE_KEYS)

    for _ in range(n):
        r = g.random()
        if c15 and r < 0.45:
            q = g.random()
            if q < 0.45:
                ops.append(["probe", key()])
            elif q < 0.55:
                ops.append(["get", key(), g.random() < 0.5])
                if ops[-1][2]:
                    used.append(ops[-1][1])
            elif q < 0.6:
                ops.append(["get_default_item", key(), g.choice([-1, 0, 1, 2, 5]), g.random() < 0.5])
                if ops[-1][3]:
                    used.append(ops[-1][1])
            elif q < 0.75:
                ops.append(["probe_int", g.randint(-7, 7)])
            elif q < 0.85:
                ops.append(["probe_slice", g.choice([None, 0, 1, -1, -2, 3]), g.choice([None, 0, 1, -1, 2, 5]),
                            g.choice([None, 1, 2, -1])])
            elif q < 0.90:
                ops.append(["recopy", g.choice(["deepcopy", "copy", "2", "4", "5", "0"])])
            elif q < 0.93:
                ops.append(["del_absent", key()])
            elif q < 0.97:
                ops.append(["set_value", g.randrange(8), g.choice(VALUES), g.choice(["item", "attr", "int"])])
            else:
                ops.append(["rename", g.randrange(8), g.choice(names)])
                used.append(ops[-1][2])
        elif r < 0.62:
            ops.append(["append", g.choice(names)])
            used.append(ops[-1][1])
        elif r < 0.78:
            ops.append(["insert", g.randint(-4, 4), g.choice(names)])
            used.append(ops[-1][2])
        elif r < 0.80:
            ops.append(["move", g.randrange(8), g.randint(-4, 4), g.random() < 0.5])
        elif r < 0.84:
            ops.append(["del_idx", g.randint(-4, 4)])
        elif r < 0.87:
            ops.append(["pop", g.randint(-4, 4)])
        elif r < 0.91:
            ops.append(["del_key", g.randrange(8)])
        elif r < 0.93:
            # reading part of the section (a slice shares the item objects with the section) between the edits
            ops.append(["probe_slice", g.choice([None, 0, 1, 2, -2]), g.choice([None, 1, -1, 3]), g.choice([None, 1, -1, 2])])
        else:
            ops.append(["replace", g.randrange(8), g.choice(names), g.choice([False, False, True, "ix"])])
            used.append(ops[-1][2])
    return ops


def names_in(ops, base_names=()):
    out = list(base_names)
    for op in ops:
        if op[0] == "append":
            out.append(op[1])
        elif op[0] in ("insert", "replace"):
            out.append(op[2])
        elif op[0] == "get" and op[2]:
            out.append(op[1])
    return out
