"""lasim - deterministic simulation with fault injection for kinverarity1/lasio.

See /verif/DESIGN.md.  Everything here is plain Python, run by /venv/bin/python,
importing lasio from the /repo working tree.
"""
