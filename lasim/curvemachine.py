"""Curve history machine (DESIGN B.3): a real LASFile and a plain list model driven by the same operation
sequence.  Used by C14 (list-model conformance, views agree, non-interference), C17 (checkpoint/restart/clone)
and C16 (write histories)."""
import io

import numpy as np

from . import docmodel
from .sectionmachine import useful, same

NAMES = ["DEPT", "GR", "gr", "RES", "", "A", "A:1", " ", "NEW", "X"]
NAMES_PLAIN = ["DEPT", "GR", "gr", "RES", "", "A", " ", "NEW", "X"]
UNITS = ["", "M", "OHMM", "US/F"]
DESCRS = ["", "a descr", "Gamma Ray"]
VALUES = ["", "45 310 01 00", 7, 1.5, None]


def mkarr(seed, rows, nan_at=None):
    a = np.arange(rows, dtype=float) * 0.5 + float(seed) * 1000.0
    if nan_at is not None and rows > 0:
        a[nan_at % rows] = np.nan
    return a


def mk2d(seed, rows, cols):
    return (np.arange(rows * cols, dtype=float).reshape(rows, cols) + float(seed) * 10000.0)


def eq(a, b):
    a, b = np.asarray(a), np.asarray(b)
    if a.shape != b.shape:
        return False
    if a.dtype.kind in "fiu" and b.dtype.kind in "fiu":
        return bool(np.array_equal(a.astype(float), b.astype(float), equal_nan=True))
    return bool(np.array_equal(a, b))


class CurveMachine(object):
    def __init__(self, init, res, tag="c0", pool=None):
        import lasio
        self.lasio = lasio
        self.pool = pool          # arrays the caller hands to several curves / several LASFiles (the same ndarray objects)
        self.res = res
        self.tag = tag
        self.step = -1
        if init.get("kind") == "read":
            text = docmodel.join(docmodel.simple_doc(init["ncurves"], init["nrows"]))
            self.las = lasio.read(io.StringIO(text), engine=init.get("engine", "numpy"))
            self.rows = init["nrows"]
        else:
            self.las = lasio.LASFile()
            self.rows = init.get("nrows", 3)
        self.L = [{"orig": c.original_mnemonic, "unit": c.unit, "value": c.value, "descr": c.descr,
                   "data": np.array(c.data, copy=True)} for c in self.las.curves]

    # -- helpers ------------------------------------------------------------------------------------
    def arr(self, seed, rows, nan_at=None):
        if self.pool is None:
            return mkarr(seed, rows, nan_at)
        key = ("1d", seed % 3, rows, nan_at)
        if key not in self.pool:
            self.pool[key] = mkarr(seed % 3, rows, nan_at)
        return self.pool[key]

    def arr2d(self, seed, rows, cols):
        if self.pool is None:
            return mk2d(seed, rows, cols)
        key = ("2d", seed % 2, rows, cols)
        if key not in self.pool:
            self.pool[key] = mk2d(seed % 2, rows, cols)
        return self.pool[key]

    def fail(self, oracle, msg):
        self.res.violate(oracle, "[%s] step %d: %s | model=%r real=%r" % (
            self.tag, self.step, msg, [m["orig"] for m in self.L],
            [(c.original_mnemonic, c.mnemonic) for c in list.__iter__(self.las.curves)]), step=self.step)

    def sessions(self):
        return [c.mnemonic for c in list.__iter__(self.las.curves)]

    def first_with_session(self, key):
        ci = False      # LASFile-level mnemonic addressing (las[k], delete/update by mnemonic) is exact-match
        for i, c in enumerate(list.__iter__(self.las.curves)):
            if same(c.mnemonic, key, ci):
                return i
        return None

    def norm(self, i):
        n = len(self.L)
        return i % n if n else 0

    # -- operations -----------------------------------------------------------------------------------
    def apply(self, op, step):
        self.step = step
        las, L, r = self.las, self.L, self.res
        kind = op[0]
        r.count("op:" + kind)
        n = len(L)
        if kind == "append":
            _, name, aseed, k = op
            a = self.arr(aseed, self.rows, k if k % 3 == 0 else None)
            u, d, v = UNITS[k % len(UNITS)], DESCRS[k % len(DESCRS)], VALUES[k % len(VALUES)]
            if k % 5 == 4:
                las.append_curve_item(self.lasio.CurveItem(name, u, v, d, a))       # the item-level API
            elif k % 5 == 3:
                las.curves.append(self.lasio.CurveItem(name, u, v, d, a))           # straight on the section
            else:
                las.append_curve(name, a, unit=u, descr=d, value=v)
            L.append({"orig": name, "unit": u, "value": v, "descr": d, "data": a.copy()})
        elif kind == "insert":
            _, ix, name, aseed, k = op
            a = self.arr(aseed, self.rows)
            u, d, v = UNITS[k % len(UNITS)], DESCRS[k % len(DESCRS)], VALUES[k % len(VALUES)]
            if k % 4 == 3:
                las.insert_curve_item(ix, self.lasio.CurveItem(name, u, v, d, a))
            else:
                las.insert_curve(ix, name, a, unit=u, descr=d, value=v)
            L.insert(ix, {"orig": name, "unit": u, "value": v, "descr": d, "data": a.copy()})
        elif kind == "delete_ix":
            if n == 0:
                r.count("op-skipped")
                return
            i = op[1] % n if op[1] >= 0 else -((-op[1] - 1) % n) - 1
            las.delete_curve(ix=i)
            del L[i]
        elif kind == "delete_mn":
            if n == 0:
                r.count("op-skipped")
                return
            key = self.sessions()[op[1] % n]
            j = self.first_with_session(key)
            if len(op) > 2 and op[2] is not None:
                # both given: "the index takes precedence over the mnemonic"
                j = op[2] % n
                las.delete_curve(mnemonic=key, ix=j)
            else:
                las.delete_curve(mnemonic=key)
            del L[j]
        elif kind == "update":
            if n == 0:
                r.count("op-skipped")
                return
            _, how, jj, fields = op
            j = jj % n
            kw = {}
            if how == "ix":
                i = j if fields.get("neg") is None else j - n
                kw["ix"] = i
                tgt = j
            else:
                key = self.sessions()[j]
                kw["mnemonic"] = key
                tgt = self.first_with_session(key)
                if fields.get("also_ix") is not None:
                    # both given: "the index takes precedence over the mnemonic"
                    tgt = fields["also_ix"] % n
                    kw["ix"] = tgt
            if "data" in fields:
                a = self.arr(fields["data"], self.rows)
                kw["data"] = a
                L[tgt]["data"] = a.copy()
            for f in ("unit", "descr", "value"):
                if f in fields:
                    kw[f] = fields[f]
                    L[tgt][f] = fields[f]
            las.update_curve(**kw)
        elif kind == "replace":
            if n == 0:
                r.count("op-skipped")
                return
            _, ii, name, aseed, k = op
            i = ii % n if ii >= 0 else -((-ii - 1) % n) - 1
            a = self.arr(aseed, self.rows)
            u, d, v = UNITS[k % len(UNITS)], DESCRS[k % len(DESCRS)], VALUES[k % len(VALUES)]
            las.replace_curve_item(i, self.lasio.CurveItem(name, u, v, d, a))
            L[i] = {"orig": name, "unit": u, "value": v, "descr": d, "data": a.copy()}
        elif kind == "move":
            # an existing CurveItem object (possibly carrying a :n suffix) is taken out and put back elsewhere
            if n == 0:
                r.count("op-skipped")
                return
            _, ii, jj, how = op
            i = ii % n
            item = list(list.__iter__(las.curves))[i]
            rec = L[i]
            las.delete_curve(ix=i)
            del L[i]
            if how == "append" or not L:
                las.append_curve_item(item)
                L.append(rec)
            elif how == "insert":
                las.insert_curve_item(jj, item)
                L.insert(jj, rec)
            else:
                t = jj % len(L)
                las.replace_curve_item(t, item)
                L[t] = rec
            self.check_views()
            self.check_group(rec["orig"])
            return
        elif kind == "setitem_arr":
            _, keyspec, aseed = op
            key = self.resolve_key(keyspec)
            a = self.arr(aseed, self.rows)
            j = self.first_with_session(key)
            las[key] = a
            if j is not None:
                L[j]["data"] = a.copy()
            else:
                L.append({"orig": key, "unit": "", "value": "", "descr": "", "data": a.copy()})
        elif kind == "setitem_item":
            _, keyspec, aseed, k = op
            key = self.resolve_key(keyspec)
            if key.strip() == "":
                r.count("op-skipped")
                return
            a = self.arr(aseed, self.rows)
            u, d, v = UNITS[k % len(UNITS)], DESCRS[k % len(DESCRS)], VALUES[k % len(VALUES)]
            j = self.first_with_session(key)
            las[key] = self.lasio.CurveItem(key, u, v, d, a)
            rec = {"orig": key, "unit": u, "value": v, "descr": d, "data": a.copy()}
            if j is not None:
                L[j] = rec
            else:
                L.append(rec)
        elif kind == "retype":
            # assign an array of another dtype to an existing curve (ints, numeric-looking text, objects)
            if n == 0:
                r.count("op-skipped")
                return
            _, jj, what, aseed = op
            j = jj % n
            base = np.arange(self.rows) + int(aseed)
            a = {"int": base.astype(np.int64), "numstr": np.array(["%d" % x for x in base]),
                 "obj": np.array([int(x) if k % 2 else float(x) + 0.5 for k, x in enumerate(base)], dtype=object),
                 "bool": (base % 2 == 0)}[what]
            las.curves[j].data = a
            L[j]["data"] = a.copy()
        elif kind == "set_data":
            _, extra, names, truncate, aseed, rows, via = op
            cols = n + extra
            if cols == 0:
                r.count("op-skipped")
                return
            A = self.arr2d(aseed, rows, cols)
            keep0 = n if truncate else cols
            names = None if names is None else list(names)[:keep0]     # statement: names shorter than or equal to the curve list
            nm = None if names is None else list(names)
            if via == "setter" and nm is None and not truncate:
                las.data = A
            else:
                las.set_data(A, names=nm, truncate=truncate)
            keep = n if truncate else cols
            while len(L) < keep:
                L.append({"orig": "", "unit": "", "value": "", "descr": "", "data": None})
            if names:
                full = list(names) + [""] * max(0, len(L) - len(names))
                for i, m in enumerate(L):
                    m["orig"] = full[i]
            for i, m in enumerate(L):
                if i < A.shape[1]:
                    m["data"] = A[:, i].copy()
            self.rows = rows
            self.check_views()
            self.check_renamed()
            return
        else:
            raise ValueError("unknown op %r" % (op,))
        self.check_views()

    def check_group(self, name):
        """Right after an item was put into the list, the curves that share its name are numbered :1..:n in list order (a
        name borne by one curve may keep a stale suffix from an earlier deletion - that is C13's tolerated case)."""
        import re as _re
        origs = [m["orig"] for m in self.L]
        if any(_re.match(r"^.*:\d+$", useful(o)) for o in origs):
            return
        ci = bool(self.las.curves.mnemonic_transforms)
        u = useful(name)
        idx = [i for i, o in enumerate(origs) if same(useful(o), u, ci)]
        if len(idx) < 2:
            return
        got = [self.sessions()[i] for i in idx]
        want = ["%s:%d" % (useful(origs[i]), k + 1) for k, i in enumerate(idx)]
        if got != want:
            self.fail("C14.views", "after putting a curve named %r back, the curves of that name are called %r, the list model says %r" % (
                name, got, want))

    def check_renamed(self):
        """set_data gives every curve its name (again): right afterwards the curve list is named like a freshly built
        one - a name borne by one curve addresses that curve, shared names are numbered in order."""
        import re as _re
        from .sectionmachine import fresh_sessions
        origs = [m["orig"] for m in self.L]
        if any(_re.match(r"^.*:\d+$", useful(o)) for o in origs):
            self.res.count("rename-view-skipped-suffix-lookalike")      # F-C13-1 territory
            return
        want = fresh_sessions(origs, bool(self.las.curves.mnemonic_transforms))
        got = self.sessions()
        if got != want:
            self.fail("C14.views", "after set_data keys() = %r, the list model's names are %r" % (got, want))

    def resolve_key(self, spec):
        """("new", name) | ("cur", j) -> a current session name of curve j (falls back to NEW when empty)."""
        if spec[0] == "cur":
            s = self.sessions()
            return s[spec[1] % len(s)] if s else "NEW"
        return spec[1]

    # -- the oracle: model equality and agreement of all views -----------------------------------------------
    def check_views(self):
        las, L = self.las, self.L
        curves = list(list.__iter__(las.curves))
        if len(curves) != len(L):
            self.fail("C14.model", "number of curves %d differs from the list model %d" % (len(curves), len(L)))
            return
        for i, (c, m) in enumerate(zip(curves, L)):
            if c.original_mnemonic != m["orig"]:
                self.fail("C14.model", "curve #%d original name %r, model %r" % (i, c.original_mnemonic, m["orig"]))
                return
            for f in ("unit", "value", "descr"):
                if getattr(c, f) != m[f]:
                    self.fail("C14.model", "curve #%d %s %r, model %r" % (i, f, getattr(c, f), m[f]))
                    return
            if m["data"] is not None and not eq(c.data, m["data"]):
                self.fail("C14.model", "curve #%d data %r, model %r" % (i, np.asarray(c.data).tolist()[:6], m["data"].tolist()[:6]))
                return
        names = [c.mnemonic for c in curves]
        if las.keys() != names or las.curves.keys() != names:
            self.fail("C14.views", "keys() %r differs from curve mnemonics %r" % (las.keys(), names))
        vals = las.values()
        if len(vals) != len(curves) or any(v is not c.data for v, c in zip(vals, curves)):
            self.fail("C14.views", "values() are not the curves' arrays in order")
        items = las.items()
        if [k for k, _ in items] != names or any(v is not c.data for (_, v), c in zip(items, curves)):
            self.fail("C14.views", "items() disagrees with the curves")
        n = len(curves)
        for i in range(-n, n):
            try:
                got = las[i]
            except Exception as e:
                got = e
            if got is not curves[i].data:
                self.fail("C14.views", "las[%d] is not curve %d's array (%r)" % (i, i, _d(got)))
                break
        ci = False
        folded = [k.upper() if las.curves.mnemonic_transforms else k for k in names]
        if len(set(folded)) != len(folded):
            # session names are not pairwise distinct: mnemonic indexing is ambiguous.  With names that look like generated
            # suffixes (X:<k>) this is known finding F-C13-1 (C13's business) and is not judged here; otherwise it is a
            # violation: some curve cannot be addressed by its own mnemonic
            import re as _re
            if getattr(self, "hazard_names", True) or any(_re.match(r"^.*:\d+$", m["orig"]) for m in self.L):
                self.res.count("mnemonic-view-skipped-ambiguous-names")
            else:
                dup = [k for k in names if folded.count(k.upper() if las.curves.mnemonic_transforms else k) > 1]
                self.fail("C14.views", "curve mnemonics %r do not address distinct curves (keys() = %r)" % (sorted(set(dup)), names))
            names_to_probe = []
        else:
            names_to_probe = names
        for i, k in enumerate(names_to_probe):
            first = [j for j, kk in enumerate(names) if same(kk, k, ci)][0]
            try:
                got = las[k]
            except Exception as e:
                got = e
            if got is not curves[first].data:
                self.fail("C14.views", "las[%r] is not the array of the first curve with that mnemonic (%r)" % (k, _d(got)))
                break
        try:
            las["__absent__"]
            self.fail("C14.views", "las['__absent__'] did not raise KeyError")
        except KeyError:
            pass
        except Exception as e:
            self.fail("C14.views", "las['__absent__'] raised %s instead of KeyError" % type(e).__name__)
        if n > 0:
            if las.index is not curves[0].data:
                self.fail("C14.views", "index is not the first curve's array")
            lens = set(len(np.asarray(c.data)) for c in curves)
            kinds = set("n" if np.asarray(c.data).dtype.kind in "fiu" else np.asarray(c.data).dtype.kind for c in curves)
            if len(kinds) > 1:
                self.res.count("data-view-skipped-mixed-dtypes")    # numpy coerces a mixed stack to text
            elif len(lens) == 1:
                try:
                    d = las.data
                except Exception as e:
                    self.fail("C14.views", "las.data raised %s: %s" % (type(e).__name__, e))
                    return
                if d.shape != (lens.pop(), n):
                    self.fail("C14.views", "data.shape %r, expected (%d, %d)" % (d.shape, len(curves[0].data), n))
                else:
                    for i, c in enumerate(curves):
                        if not eq(d[:, i], c.data):
                            self.fail("C14.views", "data[:, %d] differs from curve %d" % (i, i))
                            break


def _d(x):
    if isinstance(x, BaseException):
        return "%s(%s)" % (type(x).__name__, str(x)[:80])
    return repr(x)[:80]


# -------------------------------------------------------------------------------------------------------------
def gen_curve_ops(g, n, names, with_set_data=True):
    ops = []
    rows = None
    for t in range(n):
        r = g.random()
        k = g.randrange(12)
        a = g.randrange(1, 90)
        if r < 0.3:
            ops.append(["append", g.choice(names), a, k])
        elif r < 0.45:
            ops.append(["insert", g.randint(-4, 5), g.choice(names), a, k])
        elif r < 0.52:
            ops.append(["delete_ix", g.randint(-4, 4)])
        elif r < 0.58:
            ops.append(["delete_mn", g.randrange(8), g.randrange(8) if g.random() < 0.25 else None])
        elif r < 0.7:
            fields = {}
            for f, pool in (("data", None), ("unit", UNITS), ("descr", DESCRS), ("value", VALUES)):
                if g.random() < 0.4:
                    fields[f] = a if pool is None else g.choice(pool)
            how = g.choice(["ix", "mn"])
            if how == "ix" and g.random() < 0.3:
                fields["neg"] = 1
            if how == "mn" and g.random() < 0.25:
                fields["also_ix"] = g.randrange(8)
            ops.append(["update", how, g.randrange(8), fields])
        elif r < 0.75:
            ops.append(["replace", g.randint(-3, 5), g.choice(names), a, k])
        elif r < 0.78:
            ops.append(["move", g.randrange(8), g.randint(-3, 6), g.choice(["insert", "append", "replace"])])
        elif r < 0.85:
            spec = ["cur", g.randrange(8)] if g.random() < 0.5 else ["new", g.choice([x for x in names if x.strip()])]
            ops.append(["setitem_arr", spec, a])
        elif r < 0.91:
            spec = ["cur", g.randrange(8)] if g.random() < 0.5 else ["new", g.choice([x for x in names if x.strip()])]
            ops.append(["setitem_item", spec, a, k])
        elif with_set_data:
            extra = g.choice([0, 0, 1, 2])
            q = g.random()
            if q < 0.4:
                nm = None
            else:
                nm = [g.choice(names) for _ in range(g.randint(0, 5))]
            ops.append(["set_data", extra, nm, g.random() < 0.3, a, g.choice([1, 2, 3, 4]), g.choice(["call", "setter"])])
        else:
            ops.append(["append", g.choice(names), a, k])
    return ops
