"""C07 - curves are rectangular and bound to their own column.

Documents whose cells carry their own (row, column) coordinates, with d declared curves and c data columns
(c <, =, > d, d >= 0), unwrapped and wrapped, beyond the 20-line sniffing window, delivered through the simulated
channels and read with both engines (sniff -> seek -> reshape passes of the read protocol)."""
import copy

import numpy as np

from .. import docmodel
from ..channels import draw_read_channel, read_via
from ..core import Prop, Result
from ..simfs import SimFS, Policy
from ..swarm import neutral_read_kw, fix_kw

UNITS = ["M", "US/F", "", "OHMM"]


def tag(i, j):
    return i * 1000 + j


def cell_text(sc, i, j, fmt):
    if j == 0 and sc.get("text_index"):
        return "T%05d" % tag(i, 0)
    if j == sc.get("negcol"):
        return "-" + fmt % tag(i, j)           # one column negative throughout: a hyphen in every data line
    if j == sc.get("hashcol"):
        return "#T%05d" % tag(i, j)            # a text column whose tokens start with '#' (spreadsheet error markers)
    return fmt % tag(i, j)


def curve_name(sc, j):
    names = sc.get("names")
    return names[j] if names else "K%d" % j


def build_text(sc):
    d, c, r = sc["declared"], sc["cols"], sc["rows"]
    vers = sc.get("vers", 2.0)
    lines = docmodel.version_section(vers, "YES" if sc["wrap"] else "NO", (sc.get("dlm_spelling") or "COMMA") if sc.get("comma") else None)
    if sc.get("no_wrap_item"):
        lines = [ln for ln in lines if not ln.startswith("WRAP")]       # file does not declare WRAP at all
    lines += docmodel.well_section(0.0, float(tag(r - 1, 0)), 1000.0, -999.25, "M", (), version=vers)
    if sc.get("curve_section", True):
        curves = [(curve_name(sc, j), UNITS[j % 4], "", "declared curve %d" % j) for j in range(d)]
        lines += docmodel.curve_section(curves)
    if sc.get("params"):
        lines += docmodel.param_section([("BHT", "DEGC", "35.5", "BOTTOM HOLE TEMPERATURE")])
    lines.append(sc.get("title", "~ASCII"))
    fmt = sc.get("cellfmt", "%d")
    counts = sc.get("ragged")
    if counts:
        # ragged stratum: the same token stream, cut into lines of the given lengths
        toks = [fmt % tag(i, j) for i in range(r) for j in range(c)]
        k = 0
        ci = 0
        while k < len(toks):
            n = counts[ci % len(counts)]
            lines.append(" " + " ".join(toks[k:k + n]))
            k += n
            ci += 1
    elif sc["wrap"]:
        per = sc.get("per_line", 5)
        for i in range(r):
            if sc.get("wrap_hyphen"):
                # an ISO date as index and negative values everywhere else: every physical line holds a hyphen
                lines.append(" 2018-01-%02d" % (i % 28 + 1))
                rest = ["-" + fmt % tag(i, j) for j in range(1, c)]
            else:
                lines.append(" " + fmt % tag(i, 0))
                rest = [fmt % tag(i, j) for j in range(1, c)]
            for k in range(0, len(rest), per):
                lines.append(" " + " ".join(rest[k:k + per]))
    else:
        noise = {}
        for pos, txt in sc.get("noise", []):
            noise.setdefault(min(pos, r), []).append(txt)
        empty = set(tuple(x) for x in sc.get("empty", []))
        for i in range(r):
            lines += noise.get(i, [])
            if sc.get("runon"):
                # fixed-width export whose negative values run into their left neighbour: 1000-1001-1002
                lines.append("   %d" % (10000 + tag(i, 0)) + "".join("-%d" % (10000 + tag(i, j)) for j in range(1, c)))     # >= 5 digits each
            elif sc.get("comma"):
                lines.append(sc.get("lead", " ") + sc["comma"].join("" if (i, j) in empty else cell_text(sc, i, j, fmt) for j in range(c)))
            else:
                lines.append(sc.get("lead", " ") + sc.get("sep", " ").join(cell_text(sc, i, j, fmt) for j in range(c)))
        lines += noise.get(r, [])
        if sc.get("ctrlz") and not sc.get("tail"):
            lines.append(sc["ctrlz"])
    for t in sc.get("tail", []):
        lines += t
    return docmodel.join(lines, "\n", sc.get("final_newline", True))


class C07(Prop):
    id = "C07"
    level = "exploration"
    rule = ("scenario = (declared curves d in 0..8 incl. no ~C section, data columns c in 1..10, rows 1..30 with a stratum "
            "beyond the 20-line sniff window, c <,=,> d, cell (i,j) = i*1000+j, unwrapped with any padding or wrapped with "
            "the index alone on its line, optional sections after ~A, a ragged stratum where only equal lengths are "
            "judged) x engine x channel x codec x newline x delivery policy.  Non-trivial = the read succeeded and the "
            "cell-by-cell oracle was applied; distinct = distinct event-log digests.")
    assumptions = [
        "wrapped documents use the standard layout (index alone on the first line of each depth step) with c == d, so "
        "that the physical lines do not all carry the same number of values (otherwise the statement's own condition "
        "'every data line carries the same number of values' makes the expected column count ambiguous; that case is "
        "judged by C01 through the writer)",
        "surplus columns are expected as curves with blank original mnemonic after the declared ones",
    ]
    quick = {"runs": 35000, "wall": 60}
    thorough = {"runs": 300000, "wall": 900}

    def gen(self, st, tier, index):
        g = st.gen
        wrap = g.random() < 0.2
        r = g.choice([1, 1, 2, 3, 5, 8, 12, 21, 22, 30]) if g.random() < 0.7 else g.randint(1, 30)
        if wrap:
            c = g.randint(3, 10)
            d = c
            per = g.choice([k for k in (2, 3, 4, 5, 7) if (c - 1) % k != 0 or (c - 1) // k != 1 or True])
            sc = {"declared": d, "cols": c, "rows": r, "wrap": True, "per_line": per, "wrap_hyphen": g.random() < 0.2}
            # make sure physical lines do not all carry the same number of values
            if c - 1 <= per and c - 1 == 1:
                sc["cols"] = sc["declared"] = c + 1
        else:
            c = g.randint(1, 10)
            rel = g.random()
            d = c if rel < 0.4 else (g.randint(0, c - 1) if rel < 0.7 and c > 0 else g.randint(c + 1, c + 4))
            d = min(d, 8) if d != c else d
            sc = {"declared": d, "cols": c, "rows": r, "wrap": False, "lead": g.choice(["", " ", "   ", "\t"]),
                  "sep": g.choice([" ", "  ", "\t", "     ", " ", "  ", "\t", " \x0c ", "\x0b", " \x1c", "\x1d ", "\x1e", "\t\x0c"])}
            if d == 0 and g.random() < 0.5:
                sc["curve_section"] = False
            if g.random() < 0.15:
                sc["no_wrap_item"] = True
            if g.random() < 0.2:
                sc["noise"] = [[g.choice([0, r, g.randint(0, r)]), g.choice(["", "# comment", "   # indented comment", "  ", "#"])]
                               for _ in range(g.randint(1, 3))]
            if g.random() < 0.06:
                sc["ctrlz"] = g.choice(["\x1a", " \x1a", "\x1a\x1a"])      # a DOS end-of-file mark on a line of its own after the last row
            if g.random() < 0.12 and c >= 2:
                sc["ragged"] = [g.randint(1, c + 1) for _ in range(g.randint(2, 4))]
        if not wrap and not sc.get("ragged") and g.random() < 0.12:
            # DLM COMMA; a few empty fields (the same number on every line, so that the column count stays inferable)
            sc["comma"] = g.choice([",", ", ", " , "])
            sc.pop("sep", None)
            sc.pop("noise", None)
            if g.random() < 0.25:
                sc["dlm_spelling"] = g.choice(["Comma", "comma", "COMMA ", "Comma delimited"])   # lasio may refuse such a file
                sc["comma"] = ","
            elif sc["cols"] >= 3 and g.random() < 0.5:
                jj = g.randrange(1, sc["cols"])
                sc["empty"] = [[i, jj if g.random() < 0.7 else g.randrange(1, sc["cols"])] for i in range(sc["rows"])]
        if sc["declared"] >= 3 and g.random() < 0.1:
            # mnemonics that look like column positions, declared out of position
            names = ["DEPT"] + [str(k) for k in range(1, sc["declared"])]
            tail = names[1:]
            g.shuffle(tail)
            sc["names"] = ["DEPT"] + tail
        sc["case"] = g.choice(["upper", "upper", "lower", "preserve"])
        sc["nkw"] = neutral_read_kw(g)
        if not wrap and not sc.get("ragged") and max(sc["cols"], sc["declared"]) >= 2 and g.random() < 0.08:
            sc["second"] = {"cols": g.randint(1, max(sc["cols"], sc["declared"]) - 1), "rows": g.choice([1, 2, 3, 5, 25])}
        if not wrap and not sc.get("ragged") and not sc.get("comma") and sc["cols"] >= 2 and g.random() < 0.08:
            sc["runon"] = True
            sc["cellfmt"] = "%d"
            sc.pop("noise", None)
        elif not wrap and not sc.get("ragged") and not sc.get("comma") and g.random() < 0.1:
            sc["text_index"] = True          # the index column holds text (time stamps); forces the reference engine
        sc["cellfmt"] = g.choice(["%d", "%d", "%.1f", "%.3f"])
        if not wrap and not sc.get("ragged") and not sc.get("runon") and not sc.get("empty") and not sc.get("second") and sc["cols"] >= 2 and g.random() < 0.12:
            sc["negcol"] = g.randrange(1, sc["cols"])
        elif not wrap and not sc.get("ragged") and not sc.get("runon") and not sc.get("empty") and not sc.get("second") and not sc.get("comma") \
                and not sc.get("dtypes") and sc["cols"] >= 2 and g.random() < 0.08:
            sc["hashcol"] = g.randrange(1, sc["cols"])
        if not wrap and not sc.get("ragged") and not sc.get("text_index") and not sc.get("second") and g.random() < 0.1:
            # the caller states the column types: a dict by mnemonic or a list (as long as the declared curves, the columns, or neither)
            if sc["declared"] >= 1 and g.random() < 0.5:
                sc["dtypes"] = {"kind": "dict", "for": sorted(set(g.randrange(sc["declared"]) for _ in range(g.randint(0, 2))))}
            else:
                sc["dtypes"] = {"kind": "list", "n": g.choice([sc["declared"], sc["cols"], max(sc["cols"], sc["declared"]), max(1, sc["cols"] - 1)])}
        sc["vers"] = g.choice([1.2, 2.0])
        sc["params"] = g.random() < 0.3
        sc["title"] = g.choice(["~ASCII", "~A", "~A  K0  K1"])
        sc["tail"] = [["~Other", "trailing text 1 2 3"]] if g.random() < 0.2 else []
        sc["final_newline"] = g.random() < 0.7
        sc["engine"] = g.choice(["numpy", "normal"])
        sc["channel"] = draw_read_channel(g, ascii_only=True)
        sc["policy"] = Policy.draw(st.io).to_json()
        return sc

    def run(self, sc):
        res = Result()
        text = build_text(sc)
        fs = SimFS(policy=Policy.from_json(sc["policy"]))
        with fs:
            try:
                extra = {"accept_regexp_sub_recommendations": False} if sc.get("runon") else {}
                if sc.get("dtypes"):
                    dt = sc["dtypes"]
                    if dt["kind"] == "dict":
                        cf0 = {"upper": str.upper, "lower": str.lower}.get(sc.get("case", "upper"), str)
                        extra["dtypes"] = {cf0(curve_name(sc, j)): float for j in dt["for"]}
                    else:
                        extra["dtypes"] = [float] * dt["n"]
                    res.count("dtypes-given:" + dt["kind"])
                las = read_via(fs, text, sc["channel"], fix_kw(dict(sc.get("nkw") or {}, engine=sc["engine"], mnemonic_case=sc.get("case", "upper"),
                                           **extra)), tag="c07")
            except Exception as e:
                res.count("read-raised:" + type(e).__name__)
                res.skipped = "read raised %s (the statement speaks of successful reads)" % type(e).__name__
                if not sc.get("ragged") and not sc.get("dlm_spelling") and not sc.get("dtypes"):
                    # a rectangular, conformant document must be readable (a dtypes argument that does not fit may be refused)
                    res.skipped = None
                    res.violate("C07.unreadable", "rectangular document (d=%d c=%d r=%d wrap=%s) could not be read: %s: %s" % (
                        sc["declared"], sc["cols"], sc["rows"], sc["wrap"], type(e).__name__, str(e).strip().splitlines()[-1][:200] if str(e).strip() else ""))
                res.events = fs.seq
                return res
            if sc.get("second") and not sc.get("ragged"):
                # the same LASFile object reads a second document that has no ~C section and fewer columns
                s2 = dict(sc, declared=0, curve_section=False, cols=sc["second"]["cols"], rows=sc["second"]["rows"], noise=[], tail=[],
                          names=None, empty=[], ragged=None, comma=None, dlm_spelling=None, runon=False, text_index=False, wrap=False)
                try:
                    las = read_via(fs, build_text(s2), sc["channel"], fix_kw(dict(engine=sc["engine"], mnemonic_case=sc.get("case", "upper"))),
                                   tag="c07", into=las)
                except Exception as e:
                    res.violate("C07.unreadable", "second read into the same LASFile raised %s: %s" % (type(e).__name__, str(e)[:200]))
                    return res
                res.count("second-read-into-same-object")
                n_before = max(sc["cols"], sc["declared"])
                c2, r2 = s2["cols"], s2["rows"]
                curves2 = list(las.curves)
                lens2 = [len(np.asarray(cv.data)) for cv in curves2]
                if len(set(lens2)) > 1:
                    res.violate("C07.rectangular", "after a second read into the same object the curves have lengths %r (first: d=%d c=%d r=%d, "
                                "second: c=%d r=%d)" % (lens2, sc["declared"], sc["cols"], sc["rows"], c2, r2))
                    return res
                for j in range(min(c2, len(curves2))):
                    a = np.asarray(curves2[j].data)
                    want = np.array([tag(i, j) for i in range(r2)], dtype=float)
                    if a.dtype.kind != "f" or not np.array_equal(a, want):
                        res.violate("C07.binding", "after the second read curve #%d is not column %d of the second document: %r" % (j, j, a.tolist()[:4]))
                        return res
                for j in range(c2, len(curves2)):
                    a = np.asarray(curves2[j].data)
                    if a.dtype.kind != "f" or not np.all(np.isnan(a)):
                        res.violate("C07.nan-fill", "after the second read curve #%d (no column in the second document) is not all-NaN: %r" % (j, a.tolist()[:4]))
                        return res
                res.events = fs.seq
                res.nontrivial = True
                return res
        res.events = fs.seq
        res.merge_counts(fs.counts)
        d, c, r = sc["declared"], sc["cols"], sc["rows"]
        curves = list(las.curves)
        lens = [len(np.asarray(cv.data)) for cv in curves]
        res.log.append([len(curves), lens[:3], [cv.original_mnemonic for cv in curves][:12], sc["engine"], sc["channel"],
                        sc["declared"], sc["cols"], sc["rows"], sc["wrap"], sc.get("sep"), sc.get("lead"), sc["policy"]["kind"]])
        if len(set(lens)) > 1:
            res.violate("C07.rectangular", "curves have different lengths %r (d=%d c=%d r=%d)" % (lens, d, c, r))
            return res
        if sc.get("ragged"):
            res.count("ragged-read-succeeded")
            return res
        res.nontrivial = True
        res.count("relation:" + ("c=d" if c == d else "c>d" if c > d else "c<d"))
        n = max(c, d)
        if len(curves) != n:
            res.violate("C07.curve-count", "%d curves after reading d=%d declared, c=%d columns (expected %d)" % (len(curves), d, c, n))
            return res
        for j in range(d):
            cv = curves[j]
            cf = {"upper": str.upper, "lower": str.lower}.get(sc.get("case", "upper"), str)
            if (cv.original_mnemonic, cv.unit, cv.descr) != (cf(curve_name(sc, j)), UNITS[j % 4], "declared curve %d" % j):
                res.violate("C07.declared-metadata", "declared curve #%d came back as (%r, %r, %r)" % (j, cv.original_mnemonic, cv.unit, cv.descr))
                return res
        for j in range(d, n):
            if curves[j].original_mnemonic.strip() != "":
                res.violate("C07.surplus-unnamed", "surplus column #%d has original mnemonic %r" % (j, curves[j].original_mnemonic))
                return res
        if lens and lens[0] != r:
            res.violate("C07.rows", "curves have %d samples, the file has %d data rows (d=%d c=%d)" % (lens[0], r, d, c))
            return res
        for j in range(n):
            a = np.asarray(curves[j].data)
            empty = set(tuple(x) for x in sc.get("empty", []))
            if j < c and any((i, j) in empty for i in range(r)):
                # a column with empty fields comes back as text: every non-empty cell must still be its own tagged value
                res.count("columns-with-empty-fields")
                for i in range(r):
                    cell = a[i]
                    if (i, j) in empty:
                        ok = str(cell).strip() in ("", "nan")
                    else:
                        try:
                            ok = float(cell) == float(tag(i, j))
                        except (TypeError, ValueError):
                            ok = False
                    if not ok:
                        res.violate("C07.binding", "curve #%d row %d holds %r, expected %s (comma-delimited with empty fields; d=%d c=%d r=%d engine=%s)" % (
                            j, i, cell, "an empty cell" if (i, j) in empty else tag(i, j), d, c, r, sc["engine"]))
                        return res
                continue
            if j == 0 and sc.get("wrap_hyphen") and sc["wrap"]:
                want_t = ["2018-01-%02d" % (i % 28 + 1) for i in range(r)]
                if [str(x) for x in a.tolist()] != want_t:
                    res.violate("C07.binding", "date index of the wrapped file came back as %r, expected %r" % (a.tolist()[:4], want_t[:4]))
                    return res
                continue
            if j == 0 and sc.get("text_index") and c > 0:
                want_t = ["T%05d" % tag(i, 0) for i in range(r)]
                if [str(x) for x in a.tolist()] != want_t:
                    res.violate("C07.binding", "text index column came back as %r, expected %r" % (a.tolist()[:4], want_t[:4]))
                    return res
                continue
            if j == sc.get("hashcol") and j < c:
                want_t = ["#T%05d" % tag(i, j) for i in range(r)]
                if [str(x) for x in a.tolist()] != want_t:
                    res.violate("C07.binding", "text column #%d came back as %r, expected %r (engine=%s)" % (j, a.tolist()[:4], want_t[:4], sc["engine"]))
                    return res
                continue
            if j < c:
                sign = -1.0 if ((sc.get("runon") and j > 0) or j == sc.get("negcol") or (sc.get("wrap_hyphen") and sc["wrap"] and j > 0)) else 1.0
                off = 10000 if sc.get("runon") else 0
                want = np.array([sign * (off + tag(i, j)) for i in range(r)], dtype=float)
                if a.dtype.kind != "f" or not np.array_equal(a, want):
                    bad = [i for i in range(r) if not (a.dtype.kind == "f" and a[i] == want[i])][:3]
                    res.violate("C07.binding", "curve #%d is not column %d: rows %r hold %r, expected %r (d=%d c=%d r=%d engine=%s)" % (
                        j, j, bad, [a[i] for i in bad], [want[i] for i in bad], d, c, r, sc["engine"]))
                    return res
            else:
                if a.dtype.kind != "f" or not np.all(np.isnan(a)):
                    res.violate("C07.nan-fill", "declared curve #%d without a column is not all-NaN: %r" % (j, a.tolist()[:5]))
                    return res
        return res

    def shrink_lists(self, sc):
        return [("tail",), ("noise",)] if "noise" in sc else [("tail",)]

    def valid(self, sc):
        return sc["rows"] >= 1 and sc["cols"] >= 1

    def simplify(self, sc):
        for key, lo in (("rows", 1), ("cols", 1), ("declared", 0)):
            for v in (lo, sc[key] // 2, sc[key] - 1):
                if lo <= v < sc[key]:
                    d = copy.deepcopy(sc)
                    d[key] = v
                    if sc["wrap"] and key in ("cols", "declared"):
                        d["cols"] = d["declared"] = v
                    yield d
        if sc["channel"]["channel"] != "stringio" or sc["channel"]["newline"] != "\n":
            d = copy.deepcopy(sc)
            d["channel"] = {"channel": "stringio", "codec": "utf-8", "explicit": False, "newline": "\n"}
            yield d
        if sc["policy"] != Policy().to_json():
            d = copy.deepcopy(sc)
            d["policy"] = Policy().to_json()
            yield d
        for k, v in (("second", None), ("runon", False), ("text_index", False), ("dlm_spelling", None), ("names", None), ("empty", []), ("case", "upper"), ("no_wrap_item", False), ("params", False), ("title", "~ASCII"), ("final_newline", True), ("cellfmt", "%d"), ("lead", " "), ("sep", " ")):
            if k in sc and sc[k] != v and sc[k]:
                d = copy.deepcopy(sc)
                d[k] = v
                yield d


PROP = C07()

PROP.rule += (" Strata added while closing seeded changes (DESIGN section 10): "
              "comma-delimited rows with empty fields, odd DLM spellings, text index, run-on rows, second read into the same object, dtypes= dict/list, odd ASCII separators, Ctrl-Z tail, a negative column, a column of '#' tokens.")
PROP.rule += ' Round 8: wrapped files whose every line holds a hyphen (ISO-date index, negative values).'
