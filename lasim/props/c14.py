"""C14 - the curve collection behaves like an ordered list model under every edit history.

Two simulated clients each own one LASFile (fresh or read from the same generated text) and a list model; a seeded
op-level scheduler interleaves their operation sequences; after every operation the model equality and the agreement
of all views are checked on BOTH objects (non-interference)."""
from ..core import Prop, Result
from ..curvemachine import CurveMachine, gen_curve_ops, NAMES, NAMES_PLAIN
from ..sched import LineScheduler


class C14(Prop):
    id = "C14"
    level = "exploration"
    rule = ("scenario = 1-2 clients, each a LASFile (fresh, or read from a generated document) with an operation sequence "
            "over append_curve / insert_curve (positions incl. ends, negatives, beyond the end) / delete_curve by index or "
            "mnemonic / update_curve by index or mnemonic / replace_curve_item / las[k]=array / las[k]=CurveItem / set_data "
            "and the data setter (2-D arrays as wide or wider, names shorter/equal/with duplicates, truncate), interleaved by "
            "a seeded op-level schedule.  After every op: order, original names, metadata and arrays equal the list model, "
            "keys/values/items/index/data/int and mnemonic indexing agree, the other client's LASFile is unchanged.  "
            "Non-trivial = the run contains >= 3 effective ops incl. one of delete/replace/set_data/setitem; distinct = "
            "distinct event-log digests.")
    assumptions = [
        "arrays passed in are 1-D float ndarrays of the common length (docstrings); set_data arrays are as wide as or wider "
        "than the curve list (statement)",
        "out-of-range positions follow Python list semantics for insert; delete/replace positions are taken in range "
        "(negative allowed)",
        "session names after deletions are not predicted by the model (stale suffixes allowed); mnemonic lookups are "
        "checked against the first curve bearing that session name",
    ]
    quick = {"runs": 45000, "wall": 60}
    thorough = {"runs": 300000, "wall": 900}
    hash_sensitive = True

    def gen(self, st, tier, index):
        g = st.gen
        nclients = g.choice([1, 2, 2])
        names = NAMES if g.random() < 0.3 else NAMES_PLAIN
        clients = []
        for c in range(nclients):
            if g.random() < 0.4:
                init = {"kind": "read", "ncurves": g.randint(1, 4), "nrows": g.randint(1, 4),
                        "engine": g.choice(["numpy", "normal"])}
            else:
                init = {"kind": "fresh", "nrows": g.randint(1, 4)}
            clients.append({"init": init, "ops": gen_curve_ops(g, g.randint(1, 15 if tier == "quick" else 25), names)})
        total = sum(len(c["ops"]) for c in clients)
        schedule = [st.sched.randrange(nclients) for _ in range(total * 2)]
        sc = {"clients": clients, "schedule": schedule, "share_arrays": g.random() < 0.3}
        if nclients > 1 and ((tier == "thorough" and st.sched.random() < 0.4) or (tier == "quick" and st.sched.random() < 0.03)):
            sc["line"] = {"seed": st.sched.randrange(1 << 30), "prob": st.sched.choice([0.005, 0.02, 0.1])}
        return sc

    @staticmethod
    def hazard(sc):
        """Does the scenario use a name that looks like a generated suffix (X:<k>)?  (known finding F-C13-1)"""
        import re
        def names(op):
            for x in op:
                if isinstance(x, str):
                    yield x
                elif isinstance(x, list):
                    for y in names(x):
                        yield y
        return any(re.match(r"^.*:\d+$", n) for c in sc["clients"] for op in c["ops"] for n in names(op))

    def run_line_level(self, sc):
        """Each client edits its own LASFile on its own thread; the baton scheduler pre-empts at lasio source lines.
        Oracle: every client's own model/view checks hold after each of its operations (non-interference)."""
        res = Result()
        results = [Result() for _ in sc["clients"]]
        pool = {} if sc.get("share_arrays") else None
        ms = [CurveMachine(c["init"], results[i], tag="c%d" % i, pool=pool) for i, c in enumerate(sc["clients"])]
        for m in ms:
            m.hazard_names = self.hazard(sc)
        ls = LineScheduler(sc["line"]["seed"], sc["line"]["prob"])

        def body(i):
            def fn():
                for k, op in enumerate(sc["clients"][i]["ops"]):
                    ms[i].apply(op, k)
                    if results[i].violations:
                        break
            return fn
        errors = ls.run([(i, body(i)) for i in range(len(ms))])
        for i, r in enumerate(results):
            for v in r.violations:
                res.violate("C14.interference" if True else v["oracle"], "line-level interleaving, " + v["msg"], v["step"])
            res.merge_counts(r.counts)
        for cid, e in sorted(errors.items()):
            res.violate("C14.op-raised", "[c%d] raised %s: %s under line-level interleaving" % (cid, type(e).__name__, str(e)[:200]))
        res.count("line-level-runs")
        res.count("preemption-points", ls.points)
        res.count("thread-switches", ls.switches)
        res.log = [[m.sessions() for m in ms], [[x["orig"] for x in m.L] for m in ms], ls.points, ls.switches, ls.trace_digest]
        res.nontrivial = ls.switches > 0
        res.events = ls.points
        return res

    def run(self, sc):
        if sc.get("line") and len(sc["clients"]) > 1:
            return self.run_line_level(sc)
        res = Result()
        pool = {} if sc.get("share_arrays") else None
        if pool is not None:
            res.count("caller-arrays-shared")
        ms = [CurveMachine(c["init"], res, tag="c%d" % i, pool=pool) for i, c in enumerate(sc["clients"])]
        for m in ms:
            m.hazard_names = self.hazard(sc)
        pcs = [0] * len(ms)
        step = 0
        sched = list(sc["schedule"])
        effective = 0
        special = False
        while any(pcs[i] < len(sc["clients"][i]["ops"]) for i in range(len(ms))):
            who = sched.pop(0) % len(ms) if sched else 0
            if pcs[who] >= len(sc["clients"][who]["ops"]):
                who = [i for i in range(len(ms)) if pcs[i] < len(sc["clients"][i]["ops"])][0]
            op = sc["clients"][who]["ops"][pcs[who]]
            pcs[who] += 1
            skipped0 = res.counts.get("op-skipped", 0)
            try:
                ms[who].apply(op, step)
            except Exception as e:
                res.violate("C14.op-raised", "[c%d] step %d: %r raised %s: %s" % (who, step, op, type(e).__name__, str(e)[:200]), step=step)
                break
            if res.counts.get("op-skipped", 0) == skipped0:
                effective += 1
                if op[0] in ("delete_ix", "delete_mn", "replace", "set_data", "setitem_arr", "setitem_item"):
                    special = True
            for j, m in enumerate(ms):
                if j != who:
                    m.step = step
                    nv = len(res.violations)
                    m.check_views()
                    for v in res.violations[nv:]:
                        v["oracle"] = "C14.interference"
                        v["msg"] = "after an operation of client c%d: %s" % (who, v["msg"])
            res.log.append([step, who, op[0], [m.sessions() for m in ms], [[x["orig"] for x in m.L] for m in ms]])
            if res.violations:
                break
            step += 1
        res.nontrivial = effective >= 3 and special
        if len(ms) > 1:
            res.count("two-client-runs")
        res.events = step
        return res

    def shrink_lists(self, sc):
        return [("clients",)] + [("clients", i, "ops") for i in range(len(sc["clients"]))]

    def valid(self, sc):
        return len(sc["clients"]) >= 1

    def simplify(self, sc):
        import copy
        for i, c in enumerate(sc["clients"]):
            if c["init"].get("kind") == "read":
                d = copy.deepcopy(sc)
                d["clients"][i]["init"] = {"kind": "fresh", "nrows": c["init"]["nrows"]}
                yield d
        if any(sc["schedule"]):
            d = copy.deepcopy(sc)
            d["schedule"] = []
            yield d
        if sc.get("line"):
            d = copy.deepcopy(sc)
            del d["line"]
            yield d


PROP = C14()

PROP.rule += (" Strata added while closing seeded changes (DESIGN section 10): "
              'item-level API, index/mnemonic precedence, naming right after set_data, caller arrays shared between curves and LASFiles.')
PROP.rule += ' Round 8: existing CurveItem objects moved (delete + append/insert/replace), numbering right after the move.'
