"""C19 - ignore_header_errors makes header parsing tolerant and non-interfering.

Fault enumeration over stored content: sequences of 1..5 junk lines are injected into the stored bytes of a
readable base document at sites inside ~V, ~W, ~P and custom sections (never ~C, ~O, ~A); the damaged file is
delivered through the simulated channels and read with and without the flag."""
import copy
import re
import os
import string

import numpy as np

from .. import canon as C
from .. import docmodel
from ..channels import draw_read_channel, read_via
from ..core import Prop, Result, REPO
from ..simfs import SimFS, Policy

ADVERSARIAL = [
    ".", ":", "..", "::", ". :", ": .", "...", ":::", "..:..", "\"", "'", "\"unterminated", "'a b", "[", "(]", ")(", "[.]:[.]",
    "x" * 5000, "!@$%^&*()_+=", ". . . .", "a", "a b c", "no period no colon at all", "1.2.3.4", "-", "--", "A.B.C : D : E",
    "name only.", ".unit only", ": descr only", "a:b", "a:b.c", "a.b:c", "12:30:45", "1000 lbf", ". 1000 lbf : x", "\\", "\\n", "%s %d {}",
    "a" + " " * 200 + "b", "=", "<xml>", "0", "-999.25", "1e400", "nan", "inf.", ",", ";", "?.?:?", "MNEM .UNIT VALUE : DESCR : MORE : COLONS",
    "tab\there", "end.", "UNKNOWN", "A:1", ".A", "..A", "A..", "A . . B",
    "SERIAL. 18446744073709551616 : twenty digits", "X. 99999999999999999999", "X.M -170141183460469231731687303715884105728 : big",
    "Y. 1e999 : overflow", "Z. 9" + "9" * 400, "Q. 0x1F : hex", "R. 1_000 : underscore", "T. 1e : half exponent",
    "JUNK.[] 1 : x", "J.() : y", "x.[()] 12", "K.(( )) 3 : z", "L.[ : open", "U. --5 : x", "V. 5,,5 : x", "W 1.5.5 : x", "remark : see rev. 2", ":.", "'q' : \"a.b\"", "a : b . c : d",
]
MN = ["X", "SERIAL", "A B", "q", "LONGNAME_123", "1", "-"]
VALS = ["18446744073709551616", "99999999999999999999999", "-9223372036854775809", "1e999", "-1e-999", "0x10", "1_0", "1e", "e5", "+-1",
        "1,5", "1,,5", "12:30", "NaN", "Infinity", "-inf", "", " ", "1.", ".", "5 5", "1e5e5"]

STEER = ("VERS", "WRAP", "DLM", "NULL")
PRINTABLE = string.ascii_letters + string.digits + string.punctuation + "     "

CORPUS_DIR = os.path.join(REPO, "tests", "examples")
_corpus_cache = {}


def corpus_files():
    out = []
    for root, _, files in os.walk(CORPUS_DIR):
        for f in sorted(files):
            if f.lower().endswith(".las"):
                out.append(os.path.relpath(os.path.join(root, f), CORPUS_DIR))
    return sorted(out)


def corpus_text(name):
    """ASCII/UTF-8 decodable corpus files only; None otherwise."""
    if name not in _corpus_cache:
        try:
            with open(os.path.join(CORPUS_DIR, name), "rb") as fh:
                b = fh.read()
            t = b.decode("utf-8")
            if t.startswith("﻿") or "\x00" in t or len(t) > 60000:
                t = None
            else:
                t = t.replace("\r\n", "\n").replace("\r", "\n")
        except (OSError, UnicodeDecodeError):
            t = None
        _corpus_cache[name] = t
    return _corpus_cache[name]


def legal_junk(txt):
    s = txt.strip()
    if s.startswith("~"):
        return False
    up = s.upper()
    return not any(k in up for k in STEER)


def sites(lines):
    """Indices k such that a junk line may be inserted AFTER line k: inside ~V, ~W, ~P and custom sections."""
    out = []
    kind = None
    for k, ln in enumerate(lines):
        s = ln.strip()
        if s.startswith("~"):
            c = s[1:2].upper()
            if "_DATA" in s.upper() or "_DEFINITION" in s.upper():
                kind = None                      # LAS 3 data / definition sections: not header-item sections of 1.2/2.0
            else:
                kind = c if c not in ("C", "O", "A") else None
        if kind is not None:
            out.append(k)
    return out


def inject(lines, junk):
    out = list(lines)
    for k, txt in sorted(junk, key=lambda x: -x[0]):
        out.insert(min(k, len(out) - 1) + 1, txt)
    return out


def genuine(las):
    secs = {}
    for name, sec in las.sections.items():
        if isinstance(sec, str):
            secs[name] = ["text", sec]
        else:
            secs[name] = ["items", [[it.original_mnemonic, it.unit, C.cval(it.value), it.descr] for it in sec]]
    data = [C.cdata(c.data) for c in las.curves]
    return secs, data


def is_subsequence(small, big):
    it = iter(big)
    return all(any(x == y for y in it) for x in small)


class C19(Prop):
    id = "C19"
    level = "fault_enumeration"
    rule = ("scenario = readable base document (generated incl. custom sections and 1.2/2.0, or an example-corpus file) + a "
            "fault sequence of 1..5 junk lines (random printable ASCII, or drawn from a list of ~60 adversarial strings: only "
            "punctuation, only a period, only a colon, quotes, brackets, 5000 characters, no period / no colon forms ...) "
            "inserted at sites inside ~V, ~W, ~P and custom sections; read through channel x newline x delivery policy with "
            "ignore_header_errors=True and False.  For one generated base every legal site x every adversarial string is "
            "swept completely on every run.  Non-trivial = at least one junk line is neither blank nor a comment; distinct = "
            "distinct event-log digests.")
    assumptions = [
        "junk lines starting with '~' (after stripping) or containing VERS/WRAP/DLM/NULL in any case are not generated "
        "(statement)",
        "a junk line that happens to parse as a header item legitimately adds an item; the genuine items must remain a "
        "subsequence with unchanged original mnemonic, unit, value, description",
        "corpus bases are the UTF-8 decodable example files that lasio reads without the junk; others are skipped",
    ]
    quick = {"runs": 12000, "wall": 60}
    thorough = {"runs": 200000, "wall": 900}

    def enum_base(self):
        import random
        g = random.Random(19)
        doc = docmodel.std_doc(g, ncurves=2, nrows=2, vers=2.0, custom=1)
        return docmodel.render_doc(doc)

    def enumerated(self, tier):
        base = self.enum_base()
        out = []
        for k in sites(base):
            for adv in ADVERSARIAL:
                if legal_junk(adv):
                    out.append({"base": {"kind": "lines", "lines": base}, "junk": [[k, adv]],
                                "channel": {"channel": "stringio", "codec": "utf-8", "explicit": False, "newline": "\n"},
                                "policy": Policy().to_json(), "enum": True})
        return out

    def gen(self, st, tier, index):
        g = st.gen
        if g.random() < 0.35:
            files = corpus_files()
            base = {"kind": "corpus", "file": g.choice(files)}
            lines = (corpus_text(base["file"]) or "").split("\n")
        else:
            doc = docmodel.std_doc(g, custom=g.choice([0, 1, 2]), wrap=g.random() < 0.15)
            if g.random() < 0.2:
                # header sections in another order (~Version not first); the data section stays last
                head = doc["sections"][:-1]
                g.shuffle(head)
                doc["sections"][:-1] = head
            lines = docmodel.render_doc(doc)
            base = {"kind": "lines", "lines": lines}
        ss = sites(lines) or [0]
        junk = []
        for _ in range(g.choice([1, 1, 1, 2, 3, 5])):
            for _try in range(10):
                q = g.random()
                if q < 0.4:
                    txt = g.choice(ADVERSARIAL)
                elif q < 0.6:
                    # structured junk: a well-formed looking line around an extreme or malformed value
                    txt = "%s%s.%s%s%s%s%s" % (g.choice(MN), g.choice(["", " "]), g.choice(["", "M", "1000 lbf", ".", "[]", "()", "[()]", "((M))", "[M", ")"]), g.choice([" ", "   "]),
                                               g.choice(VALS), g.choice(["", " :", " : descr", ":"]), g.choice(["", " x"]))
                else:
                    txt = "".join(g.choice(PRINTABLE) for _ in range(g.randint(1, 40)))
                if g.random() < 0.15:
                    txt = g.choice(["   ", " \t"]) + txt
                if legal_junk(txt):
                    break
            else:
                txt = "junk"
            junk.append([st.fault.choice(ss), txt])
        if g.random() < 0.3:
            # blank lines between the genuine lines: they carry nothing, and must not shift what a message points at
            for _ in range(g.choice([1, 2, 4])):
                junk.append([st.fault.choice(ss), g.choice(["", "", "   ", "\t"])])
        return {"twice": g.random() < 0.2, "base": base, "junk": junk, "channel": draw_read_channel(g, ascii_only=True, allow_cr=False, used_object_p=0.06),
                "policy": Policy.draw(st.io).to_json(),
                "rkw": g.choice([{}, {}, {"mnemonic_case": "lower"}, {"mnemonic_case": "preserve"}, {"engine": "normal"}, {"ignore_data": True},
                                 {"null_policy": "none"}])}

    def run(self, sc):
        import lasio
        res = Result()
        b = sc["base"]
        if b["kind"] == "corpus":
            t = corpus_text(b["file"])
            if t is None:
                res.skipped = "corpus file not UTF-8 text"
                return res
            lines = t.split("\n")
            final_nl = False
        else:
            lines = list(b["lines"])
            final_nl = True
        ss = set(sites(lines))
        junk = [[k, txt] for k, txt in sc["junk"] if k in ss and legal_junk(txt)]
        if not junk:
            res.skipped = "no legal junk site"
            return res
        base_text = docmodel.join(lines, "\n", final_nl)
        bad_text = docmodel.join(inject(lines, junk), "\n", final_nl)
        if not bad_text.isascii() and sc["channel"]["channel"] in ("path", "Path", "stream") and not (
                sc["channel"].get("explicit") and sc["channel"]["codec"] in ("utf-8", "utf-16", "utf-8-sig")):
            # non-ASCII corpus text: file channels get an explicit Unicode codec (which codec lasio guesses for a BOM-less
            # non-ASCII file is claimed by no property - the guess depends on how much of the file the first decode sees)
            sc = dict(sc, channel=dict(sc["channel"], codec="utf-8", explicit=True))
        fs = SimFS(policy=Policy.from_json(sc["policy"]))
        with fs:
            try:
                rkw = dict(sc.get("rkw") or {})
                base = read_via(fs, base_text, sc["channel"], dict(rkw), tag="c19")
            except Exception as e:
                res.skipped = "base not readable: %s" % type(e).__name__
                return res
            gsecs, gdata = genuine(base)
            res.nontrivial = any(t.strip() and not t.strip().startswith("#") for _, t in junk)
            res.count("junk-lines", len(junk))
            # with the flag: never an exception, no interference
            import logging
            captured = []

            class _Cap(logging.Handler):
                def emit(self, record):
                    if record.levelno >= logging.WARNING:
                        try:
                            captured.append(record.getMessage())
                        except Exception:
                            captured.append(str(record.msg))
            lg = logging.getLogger("lasio.reader")
            cap = _Cap()
            old_level, old_prop = lg.level, lg.propagate
            lg.addHandler(cap)
            lg.setLevel(logging.WARNING)
            lg.propagate = False
            try:
                tol = read_via(fs, bad_text, sc["channel"], dict(rkw, ignore_header_errors=True), tag="c19")
                first_warnings = list(captured)
                if sc.get("twice"):
                    # the same text read a second time: the skipped lines are reported again
                    del captured[:]
                    read_via(fs, bad_text, sc["channel"], dict(rkw, ignore_header_errors=True), tag="c19")
                    res.count("tolerant-read-repeated")
                    if sorted(captured) != sorted(first_warnings):
                        res.violate("C19.warning", "the second tolerant read of the same text reported %r, the first %r | junk=%r" % (
                            captured[:3], first_warnings[:3], [t[:60] for _, t in junk]))
                captured[:] = first_warnings
            except Exception as e:
                lg.removeHandler(cap)
                lg.setLevel(old_level)
                lg.propagate = old_prop
                res.violate("C19.raised", "ignore_header_errors=True but read raised %s: %s | junk=%r" % (
                    type(e).__name__, str(e).strip().splitlines()[-1][:200] if str(e).strip() else "", [t[:60] for _, t in junk]))
                res.events = fs.seq
                return res
            lg.removeHandler(cap)
            lg.setLevel(old_level)
            lg.propagate = old_prop
            tsecs, tdata = genuine(tol)
            for name, want in gsecs.items():
                got = tsecs.get(name)
                if got is None:
                    res.violate("C19.interference", "section %r disappeared | junk=%r" % (name, [t[:60] for _, t in junk]))
                    break
                if want[0] == "text":
                    if got != want:
                        res.violate("C19.interference", "text of %r changed: %r -> %r | junk=%r" % (name, want[1][:80], got[1][:80] if got[0] == "text" else got[0], [t[:60] for _, t in junk]))
                        break
                elif name == "Curves":
                    if got != want:
                        res.violate("C19.interference", "~Curves items changed | junk=%r" % ([t[:60] for _, t in junk],))
                        break
                elif got[0] != "items" or not is_subsequence(want[1], got[1]):
                    missing = [x for x in want[1] if x not in (got[1] if got[0] == "items" else [])][:3]
                    res.violate("C19.interference", "genuine items of %r were changed, dropped or reordered: %r no longer present as "
                                "written (now %r) | junk=%r" % (name, missing, [x[0] for x in got[1]][:12] if got[0] == "items" else got[0],
                                                                [t[:60] for _, t in junk]))
                    break
            if not res.violations:
                # a junk line can at most add one item of its own: lines of other sections must not show up a second time
                extra = sum(max(0, len(got[1]) - len(gsecs[name][1])) for name, got in tsecs.items()
                            if got[0] == "items" and name in gsecs and gsecs[name][0] == "items")
                if extra > len(junk):
                    res.violate("C19.interference", "%d junk lines but %d additional header items appeared | junk=%r" % (
                        len(junk), extra, [t[:60] for _, t in junk]))
            if not res.violations and tdata != gdata:
                res.violate("C19.interference", "curve data changed | junk=%r" % ([t[:60] for _, t in junk],))
            # without the flag: success or LASHeaderError naming the line
            if not res.violations:
                try:
                    read_via(fs, bad_text, sc["channel"], dict(rkw), tag="c19")
                    res.count("strict-read:ok")
                except lasio.exceptions.LASHeaderError as e:
                    res.count("strict-read:LASHeaderError")
                    msg = str(e)
                    if msg not in captured:
                        res.violate("C19.warning", "the line that raises without the flag (%r) was skipped without that warning (warnings: %r) | junk=%r" % (
                            msg[:120], captured[:3], [t[:60] for _, t in junk]))
                    if not any(t.strip() and t.strip() in msg for _, t in junk):
                        res.violate("C19.error-message", "LASHeaderError does not name the malformed line: %r | junk=%r" % (msg[:200], [t[:60] for _, t in junk]))
                    else:
                        # the message also points at a line number: it must be the (1-based) number of a line with that text
                        mnum = re.match(r"^Line (\d+) ", msg)
                        named = [t.strip() for _, t in junk if t.strip() and '"%s"' % t.strip() in msg]
                        if mnum and named and "\r" not in bad_text:
                            blines = bad_text.split("\n")
                            ok_nos = [i + 1 for i, ln in enumerate(blines) if ln.strip() in named]
                            res.count("strict-read:line-number-checked")
                            if int(mnum.group(1)) not in ok_nos:
                                res.violate("C19.error-message", "LASHeaderError points at line %s but the malformed line %r is line %r | junk=%r" % (
                                    mnum.group(1), named[0][:60], ok_nos[:4], [t[:60] for _, t in junk]))
                except Exception as e:
                    res.violate("C19.wrong-exception", "without the flag a malformed header line caused %s (not LASHeaderError): %s | junk=%r" % (
                        type(e).__name__, str(e).strip().splitlines()[-1][:200] if str(e).strip() else "", [t[:60] for _, t in junk]))
        res.events = fs.seq
        res.merge_counts(fs.counts)
        res.log.append([b.get("file") or len(lines), junk if len(str(junk)) < 400 else C.sha_text(str(junk)), sc["channel"], sc["policy"]["kind"]])
        return res

    def shrink_lists(self, sc):
        return [("junk",)]

    def valid(self, sc):
        return len(sc["junk"]) >= 1

    def simplify(self, sc):
        if sc["channel"]["channel"] != "stringio" or sc["channel"]["newline"] != "\n":
            d = copy.deepcopy(sc)
            d["channel"] = {"channel": "stringio", "codec": "utf-8", "explicit": False, "newline": "\n"}
            yield d
        if sc["policy"] != Policy().to_json():
            d = copy.deepcopy(sc)
            d["policy"] = Policy().to_json()
            yield d
        if sc.get("rkw"):
            d = copy.deepcopy(sc)
            d["rkw"] = {}
            yield d
        for i, (k, t) in enumerate(sc["junk"]):
            if len(t) > 3:
                for cut in (t[:len(t) // 2], t[len(t) // 2:], t[1:], t[:-1]):
                    if legal_junk(cut) and cut:
                        d = copy.deepcopy(sc)
                        d["junk"][i][1] = cut
                        yield d


PROP = C19()

PROP.rule += (" Strata added while closing seeded changes (DESIGN section 10): "
              'structured junk, blank junk lines, shuffled header sections, bracket-only units, streams named by a descriptor, line numbers in messages, bound on added items, reads into a used LASFile.')
PROP.rule += ' Round 8: the skip warnings are captured (the line that raises without the flag must be warned about), tolerant reads repeated.'
