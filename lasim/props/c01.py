"""C01 - numeric curve data survives write -> read within the printed precision.

A LASFile is built in memory from a seeded spec (curve count biased to multiples of the number of fields per wrapped
line, rows beyond the sniff window, float64 samples over the whole magnitude range, NaN at non-index positions),
written with a drawn writer-option set through a drawn output channel of the simulated file system, and read back
through a drawn input channel / delivery policy with both engines."""
import copy
import io
import math
import re

import numpy as np

from ..channels import draw_read_channel, read_via, write_via
from ..core import Prop, Result
from ..simfs import SimFS, Policy
from ..swarm import neutral_read_kw, neutral_write_kw, fix_kw

FMTS = ["%.5f", "%.0f", "%.1f", "%.2f", "%.3f", "%.4f", "%.6f", "%.10f", "%.3e", "%.6e", "%.16e", "%g", "%.12g", "%12.4f",
        "%10.3e", "%.15g"]
NULLS = [-9999.25, -999.25, -9999, 9999.25, 1e30, 5, 0]
TOKEN = re.compile(r"^[-+]?(\d+)(?:\.(\d*))?(?:[eE]([-+]?\d+))?$")


def unit_of(token):
    """Unit of the last printed digit of a decimal token."""
    m = TOKEN.match(token.strip())
    if not m:
        return None
    nd = len(m.group(2) or "")
    e = int(m.group(3) or 0)
    return 10.0 ** (e - nd)


def sample(g, cls):
    if cls == "smallint":
        return float(g.randint(-1000, 1000))
    if cls == "fixed":
        return round(g.uniform(-5000, 5000), g.randint(0, 6))
    if cls == "unit":
        return g.uniform(-1, 1)
    if cls == "big":
        return g.choice([1, -1]) * g.uniform(1, 10) * 10.0 ** g.randint(6, 18)
    if cls == "huge":
        return g.choice([1, -1]) * g.uniform(1, 10) * 10.0 ** g.choice([40, 72, 73, 74, 80, 120])
    if cls == "tiny":
        return g.choice([1, -1]) * g.uniform(1, 10) * 10.0 ** -g.randint(3, 30)
    if cls == "zero":
        return g.choice([0.0, -0.0])
    if cls == "nearnull":
        return g.choice([-999.2501, -999.2499, -9999.2501, -9999.0001, 9999.2499, -999.24999999])
    return g.uniform(-100, 100)


class C01(Prop):
    id = "C01"
    level = "exploration"
    rule = ("scenario = (curves 1..40 biased to multiples of the number of fields on one wrapped line, rows 1..12 or "
            "21..60, float64 samples from classes small ints / fixed decimals / |x| up to 1e18 and down to 1e-30 / +-0 / "
            "near-NULL / NaN at non-index cells, NULL value) x (version, wrap, fmt, column_fmt, len_numeric_field, spacer, "
            "lhs_spacer, data_width, mnemonics_header, data_section_header) x output channel x input channel/codec/"
            "newline/delivery x both engines.  Non-trivial = wrap on, or >20 rows, or a non-default format/width option; "
            "distinct = distinct event-log digests.")
    assumptions = [
        "spacers are blanks, or a comma / tab (the writer then declares DLM COMMA / TAB); data_width >= the longest formatted "
        "field + spacer (documented precondition)",
        "a finite non-index sample whose printed form is numerically equal to the NULL marker is regenerated (C06 makes "
        "it NaN by definition)",
        "half a unit of the last printed digit is derived from `fmt % x` computed here in Python, plus 2 ulp for "
        "decimal -> binary conversion",
        "|x| <= 1e18 with fixed formats so that tokens stay shorter than the drawn data_width",
    ]
    def pred_wrapped_spacer(sc, v, params):
        kw = sc["kw"]
        return kw.get("wrap") is True and kw.get("spacer", " ").strip(" ") in (",", "\t")

    predicates = {"wrapped_nonblank_spacer": pred_wrapped_spacer}
    quick = {"runs": 9000, "wall": 60}
    thorough = {"runs": 150000, "wall": 900}

    def gen(self, st, tier, index):
        g = st.gen
        fmt = g.choice(FMTS) if g.random() < 0.6 else "%.5f"
        kw = {}
        if fmt != "%.5f":
            kw["fmt"] = fmt
        wrap = g.choice([None, None, True, True, False])
        if wrap is not None:
            kw["wrap"] = wrap
        v = g.choice([None, None, 1.2, 2.0])
        if v is not None:
            kw["version"] = v
        lnf = g.choice([None, None, None, -1, "fit", "fit+3"])
        spacer = g.choice([" ", " ", "  ", " ", ",", ", ", "\t"])
        lhs = g.choice([" ", " ", "", "   "])
        if spacer != " ":
            kw["spacer"] = spacer
        if lhs != " ":
            kw["lhs_spacer"] = lhs
        if g.random() < 0.2:
            kw["mnemonics_header"] = True
        if g.random() < 0.2:
            kw["data_section_header"] = g.choice(["~A", "~Ascii Data", "~ASCII"])
        # curve count: biased to multiples of the number of fields that fit on one wrapped line
        width = g.choice([79, 79, 79, 40, 120, 250])
        r = g.random()
        if r < 0.45:
            per = g.choice([7, 7, 6, 5, 4, 3, 2, 8, 10])
            nc = min(40, per * g.randint(1, 5))
        else:
            nc = g.randint(1, 40)
        nr = g.randint(21, 60) if g.random() < 0.12 else g.randint(1, 12)
        null = g.choice(NULLS) if g.random() < 0.4 else None
        classes = g.sample(["smallint", "fixed", "unit", "big", "tiny", "zero", "nearnull", "plain", "huge"], g.randint(1, 4))
        nan_p = g.choice([0.0, 0.1, 0.3])
        cols = []
        for j in range(nc):
            if j == 0:
                start = g.choice([0.0, 100.0, 1500.5, -20.0])
                step = g.choice([0.5, 0.1524, 1.0, -0.25])
                col = [start + i * step for i in range(nr)]
            else:
                col = [None if g.random() < nan_p else sample(g, g.choice(classes)) for _ in range(nr)]
            cols.append(col)
        cfmt = {}
        if g.random() < 0.25:
            for j in g.sample(range(nc), min(nc, g.randint(1, 3))):
                cfmt[str(j)] = g.choice(FMTS)
        sc = {"cols": [[None if x is None else float(x).hex() for x in c] for c in cols], "kw": kw, "column_fmt": cfmt,
              "lnf": lnf, "data_width": width, "null": null, "engine": g.choice(["numpy", "normal"]),
              "out": g.choice(["path", "stream", "stringio"]), "channel": draw_read_channel(g, ascii_only=True, used_object_p=0.06),
              "policy": Policy.draw(st.io).to_json(), "names": g.choice(["plain", "plain", "long", "mixed"]),
              "case": g.choice(["preserve", "preserve", "upper", "lower"]), "nkw": neutral_read_kw(g),
              "nwkw": neutral_write_kw(g, present=tuple(kw) + ("column_fmt", "len_numeric_field", "data_width"))}
        if g.random() < 0.12:
            # an earlier write of the same object with another numeric format, handed the very same option objects
            sc["prior_fmt"] = g.choice(["%.1f", "%.2f", "%.8f", "%.3e", None])
            sc["prior_edit"] = g.random() < 0.6     # ... and the samples are edited in place between the two writes
        if g.random() < 0.1:
            # the LASFile under test was obtained by reading a file (any mnemonic_case), not built from scratch
            sc["via_read"] = g.choice(["lower", "upper", "preserve"])
            if sc["via_read"] == "lower" and sc["case"] == "preserve":
                # the file then spells null/dlm/wrap in lower case; lasio recognises the steering names in a file by the
                # case-mapped spelling, so reading it back with mnemonic_case='preserve' is not one of the statement's reads
                sc["case"] = "upper"
        return sc

    # ---------------------------------------------------------------------------------------------------------
    def run(self, sc):
        import lasio
        res = Result()
        cols = [[float("nan") if x is None else float.fromhex(x) for x in c] for c in sc["cols"]]
        nc, nr = len(cols), len(cols[0])
        kw = copy.deepcopy(sc["kw"])
        kw.update(fix_kw(sc.get("nwkw") or {}))
        fmt = kw.get("fmt", "%.5f")
        cfmt = {int(k): v for k, v in sc["column_fmt"].items() if int(k) < nc}
        if cfmt:
            kw["column_fmt"] = cfmt
        null = sc["null"] if sc["null"] is not None else -9999.25

        def colfmt(j):
            return cfmt.get(j, fmt)
        # statement's exclusion: a finite non-index sample that prints as the NULL marker is regenerated
        toks = []
        for j in range(nc):
            tj = []
            for i in range(nr):
                x = cols[j][i]
                if j > 0 and not math.isnan(x):
                    for _ in range(5):
                        t = colfmt(j) % x
                        try:
                            if float(t) != float(null):
                                break
                        except ValueError:
                            break
                        x = x + 1.2345
                        cols[j][i] = x
                tj.append(str(null) if math.isnan(x) else colfmt(j) % x)
            toks.append(tj)
        longest = max(len(t) for tj in toks for t in tj)
        if sc["lnf"] == -1:
            kw["len_numeric_field"] = -1
        elif sc["lnf"] in ("fit", "fit+3"):
            kw["len_numeric_field"] = longest + (3 if sc["lnf"] == "fit+3" else 0)
        # data_width has to hold the longest field only when rows are folded (documented precondition of wrapping)
        width = max(sc["data_width"], longest + 8) if kw.get("wrap") else sc["data_width"]
        if width != 79:
            kw["data_width"] = width
        las = lasio.LASFile()
        if sc["null"] is not None:
            las.well["NULL"].value = sc["null"]
        names = []
        for j in range(nc):
            nm = "DEPT" if j == 0 else ("C%d" % j if sc["names"] == "plain" else ("Gr%dx" % j if sc["names"] == "mixed" else "CURVE_NUMBER_%d_LONG" % j))
            names.append(nm)
            las.append_curve(nm, np.array(cols[j], dtype=float), unit="M" if j == 0 else "U", descr="curve %d" % j)
        if sc.get("via_read"):
            try:
                o = io.StringIO()
                las.write(o, fmt="%.17g")
                las2 = lasio.read(o.getvalue(), mnemonic_case=sc["via_read"], engine="normal")
                same = len(las2.curves) == nc and all(
                    np.array_equal(np.asarray(las2.curves[j].data, dtype=float), np.array(cols[j], dtype=float), equal_nan=True) for j in range(nc))
            except Exception:
                same = False
            if same:
                las = las2
                cfl = {"upper": str.upper, "lower": str.lower}.get(sc["via_read"], str)
                names = [cfl(n) for n in names]
                res.count("object-obtained-by-reading:" + sc["via_read"])
            else:
                res.count("via-read-skipped")
        fs = SimFS(policy=Policy.from_json(sc["policy"]))
        with fs:
            if "prior_fmt" in sc:
                try:
                    pk = dict(kw)             # shallow: the column_fmt dict is the caller's one object in both calls
                    if sc["prior_fmt"]:
                        pk["fmt"] = sc["prior_fmt"]
                    if sc.get("prior_edit"):
                        for j in range(1, nc):
                            las.curves[j].data[:] = np.asarray(las.curves[j].data) * 0.5 + 3.0
                    las.write(io.StringIO(), **pk)
                    if sc.get("prior_edit"):
                        for j in range(1, nc):
                            las.curves[j].data[:] = np.array(cols[j], dtype=float)      # in place: the same array objects
                        res.count("samples-edited-in-place-between-writes")
                    res.count("prior-write-with-shared-options")
                except Exception:
                    res.count("prior-write-raised")
            try:
                text = write_via(fs, las, sc["out"], kw, tag="c01")
            except Exception as e:
                res.violate("C01.write-raised", "write(%r) raised %s: %s" % (kw, type(e).__name__, str(e)[:200]))
                return res
            try:
                back = read_via(fs, text, sc["channel"], fix_kw(dict(sc.get("nkw") or {}, engine=sc["engine"], mnemonic_case=sc.get("case", "preserve"))), tag="c01")
            except Exception as e:
                res.violate("C01.unreadable", "lasio cannot read its own output (nc=%d nr=%d kw=%r engine=%s): %s: %s" % (
                    nc, nr, kw, sc["engine"], type(e).__name__, str(e).strip().splitlines()[-1][:200] if str(e).strip() else ""))
                res.events = fs.seq
                return res
        res.events = fs.seq
        res.merge_counts(fs.counts)
        wrapped = kw.get("wrap") is True
        res.nontrivial = wrapped or nr > 20 or bool(set(kw) - {"version"})
        res.count("wrapped" if wrapped else "unwrapped")
        res.log.append([nc, nr, sorted(kw.items(), key=str), sc["engine"], sc["out"], sc["channel"], sc["policy"]["kind"],
                        C_sha(text)])
        bc = list(back.curves)
        if len(bc) != nc:
            res.violate("C01.curve-count", "%d curves written, %d read back (nr=%d kw=%r engine=%s)" % (nc, len(bc), nr, kw, sc["engine"]))
            return res
        got_names = [c.original_mnemonic for c in bc]
        cf = {"upper": str.upper, "lower": str.lower}.get(sc.get("case", "preserve"), str)
        names = [cf(n) for n in names]
        if got_names != names or back.keys() != names:
            res.violate("C01.mnemonics", "mnemonics %r read back as %r / %r" % (names[:6], got_names[:6], back.keys()[:6]))
            return res
        for j in range(nc):
            a = np.asarray(bc[j].data)
            if len(a) != nr:
                res.violate("C01.rows", "curve #%d has %d samples after the round trip, %d were written (nc=%d kw=%r engine=%s)" % (
                    j, len(a), nr, nc, kw, sc["engine"]))
                return res
            if a.dtype.kind != "f":
                res.violate("C01.dtype", "curve #%d came back with dtype %s: %r" % (j, a.dtype, a.tolist()[:4]))
                return res
            for i in range(nr):
                x, y = cols[j][i], float(a[i])
                if math.isnan(x):
                    if not math.isnan(y):
                        res.violate("C01.nan", "NaN at (row %d, curve %d) came back as %r (NULL=%r kw=%r)" % (i, j, y, null, kw))
                        return res
                    continue
                if math.isnan(y):
                    res.violate("C01.nulled", "finite sample %r at (row %d, curve %d), printed %r, came back as NaN (NULL=%r index=%s)" % (
                        x, i, j, toks[j][i], null, j == 0))
                    return res
                u = unit_of(toks[j][i])
                if u is None:
                    res.count("unparsed-token")
                    continue
                tol = 0.5 * u + 2 * abs(math.ulp(x)) + 2 * abs(math.ulp(y))
                if abs(y - x) > tol:
                    res.violate("C01.value", "sample %r at (row %d, curve %d) printed as %r came back as %r (|d|=%g > %g; kw=%r engine=%s)" % (
                        x, i, j, toks[j][i], y, abs(y - x), tol, kw, sc["engine"]))
                    return res
        return res

    def shrink_lists(self, sc):
        return [("cols",)]

    def valid(self, sc):
        return len(sc["cols"]) >= 1 and len(sc["cols"][0]) >= 1 and all(x is not None for x in sc["cols"][0])

    def simplify(self, sc):
        nr = len(sc["cols"][0])
        for keep in (1, nr // 2, nr - 1):
            if 1 <= keep < nr:
                d = copy.deepcopy(sc)
                d["cols"] = [c[:keep] for c in d["cols"]]
                yield d
        for k in list(sc["kw"]):
            d = copy.deepcopy(sc)
            del d["kw"][k]
            yield d
        for k, v in (("column_fmt", {}), ("lnf", None), ("data_width", 79), ("null", None), ("out", "stringio"), ("names", "plain"),
                     ("engine", "normal"), ("case", "preserve")):
            if sc.get(k, v) != v:
                d = copy.deepcopy(sc)
                d[k] = v
                yield d
        if sc["channel"]["channel"] != "stringio" or sc["channel"]["newline"] != "\n":
            d = copy.deepcopy(sc)
            d["channel"] = {"channel": "stringio", "codec": "utf-8", "explicit": False, "newline": "\n"}
            yield d
        if sc["policy"] != Policy().to_json():
            d = copy.deepcopy(sc)
            d["policy"] = Policy().to_json()
            yield d
        # simpler values
        for j, c in enumerate(sc["cols"]):
            if j > 0 and any(x not in (None, (1.0).hex()) for x in c):
                d = copy.deepcopy(sc)
                d["cols"][j] = [None if x is None else (1.0).hex() for x in c]
                yield d


def C_sha(t):
    import hashlib
    return hashlib.sha256(t.encode("utf-8")).hexdigest()[:12]


PROP = C01()

PROP.rule += (" Strata added while closing seeded changes (DESIGN section 10): "
              'comma/tab spacers; an earlier write of the same object that shares the option objects and/or is followed by in-place edits of the samples; LASFiles obtained by reading (any mnemonic_case) instead of built from scratch; reads into a LASFile that has read another file before.')
PROP.rule += ' Round 8: magnitudes up to 1e120 (tokens wider than data_width when not wrapping).'
