"""C16 - write() is deterministic, leaves data alone, states STRT/STOP/STEP truthfully.

Write histories on the simulated file system: a LASFile (built from scratch, read, or read then edited in its index /
other curves / header) is written 1..4 times with one option set through lasio-opened paths, caller streams or
StringIO; failed writes (OSError injected at a raw write) are placed between successful ones.  A deep snapshot is
taken before and after every write."""
import copy
import io
import re

import numpy as np

from .. import canon as C
from .. import docmodel
from ..core import Prop, Result
from ..curvemachine import CurveMachine, gen_curve_ops, NAMES_PLAIN
from ..simfs import SimFS, Policy
from .c19 import corpus_files, CORPUS_DIR

FMTS = ["%.5f", "%.2f", "%.3f", "%.1f", "%.4e", "%10.4f", "%.8f"]
WKWS = [
    {}, {"version": 1.2}, {"version": 2.0}, {"wrap": True}, {"wrap": False}, {"version": 1.2, "wrap": True},
    {"mnemonics_header": True}, {"data_section_header": "~A"}, {"len_numeric_field": -1}, {"spacer": "  "},
    {"lhs_spacer": ""}, {"data_width": 40, "wrap": True}, {"column_fmt": {0: "%.3f"}}, {"header_width": 30},
]
UNIT_POOL = ["M", "FT", "F", "m", "", "S", "MS"]


def snapshot(las):
    s = C.canon(las, strict=True, with_session=True, data=True, index_unit=True)
    return s


def standardize(value, unit):
    if unit and (not value) and (value != 0):
        value = 0
    if value is None:
        value = ""
    return value


def allowed_diff(before, after, wrap_given, las_before_values):
    """Return list of differences that are NOT in the documented set."""
    bad = []
    if before["keys"] != after["keys"]:
        bad.append("section keys %r -> %r" % (before["keys"], after["keys"]))
        return bad
    if before.get("index_unit") != after.get("index_unit"):
        bad.append("index_unit %r -> %r" % (before.get("index_unit"), after.get("index_unit")))
    for (name, sb), (_, sa) in zip(before["sections"], after["sections"]):
        if sb[0] == "text":
            if sb != sa:
                bad.append("~%s text changed" % name)
            continue
        ib, ia = sb[1], sa[1]
        if name == "Version" and wrap_given:
            # the WRAP item is replaced - or added when the object had none - when wrap= is given (documented)
            ib = [x for x in ib if str(x["orig"]).upper() != "WRAP"]
            ia = [x for x in ia if str(x["orig"]).upper() != "WRAP"]
        if len(ib) != len(ia):
            bad.append("~%s has %d items, had %d" % (name, len(ia), len(ib)))
            continue
        for k, (x, y) in enumerate(zip(ib, ia)):
            if x == y:
                continue
            dx = {f: (x.get(f), y.get(f)) for f in set(x) | set(y) if x.get(f) != y.get(f)}
            up = str(x["orig"]).upper()
            if name == "Version" and wrap_given and up == "WRAP":
                continue
            if name == "Well" and up in ("STRT", "STOP", "STEP") and x["session"].upper() == up:
                dx.pop("value", None)
                dx.pop("unit", None)
            if name == "Curves" and k == 0:
                dx.pop("unit", None)
            if name in ("Well", "Parameter") and "value" in dx:
                vb = las_before_values[name][k]
                if (vb is None or (isinstance(vb, str) and vb == "")) and \
                        C.cval_strict(standardize(vb, x["unit"])) == y["value"]:
                    dx.pop("value", None)
            if dx:
                bad.append("~%s item #%d (%s): %s" % (name, k, x["orig"], "; ".join(
                    "%s %r -> %r" % (f, _s(a), _s(b)) for f, (a, b) in sorted(dx.items()))))
    return bad


def _s(x):
    r = repr(x)
    return r if len(r) < 80 else r[:77] + "..."


def parse_written(text, ncols):
    """Independent parse of lasio's output: (STRT, STOP, STEP fields as (unit, value text), curve0 unit,
    written index tokens).  Header lines are `MNEM.UNIT   VALUE : DESCR` as the writer lays them out."""
    lines = text.split("\n")
    sec = None
    well = {}
    curve0_unit = None
    tokens = []
    vers = 2.0
    for ln in lines:
        if ln.startswith("~"):
            sec = ln[1:2].upper()
            continue
        if sec == "V":
            m = re.match(r"^\s*VERS\s*\.\s+(\S+)", ln, re.I)
            if m:
                try:
                    vers = float(m.group(1))
                except ValueError:
                    pass
        if sec == "W":
            m = re.match(r"^\s*(STRT|STOP|STEP)\s*\.(\S*)\s+(.*?)\s*:\s*(.*)$", ln, re.I)
            if m:
                well[m.group(1).upper()] = (m.group(2), m.group(3).strip())
        elif sec == "C" and curve0_unit is None and ln.strip() and not ln.strip().startswith("#"):
            m = re.match(r"^\s*([^.]*)\.(\S*)", ln)
            if m:
                curve0_unit = m.group(2)
        elif sec == "A":
            tokens.extend(ln.split())
    index = tokens[0::ncols] if ncols else []
    return well, curve0_unit, index


def decimals_of(fmt):
    m = re.match(r"^%[-+ 0#]*\d*\.(\d+)([fFeE])$", fmt)
    if not m:
        return None
    return int(m.group(1)), m.group(2).lower()


class C16(Prop):
    id = "C16"
    level = "exploration"
    rule = ("scenario = LASFile (scratch / read with consistent or wrong STOP / read then edited: index in place or "
            "rebound, other curves, curve-list edits leaving stale suffixes, header items with empty or None values) x one "
            "writer option set (STRT/STOP/STEP left to lasio) x 1..4 writes through path / caller stream / StringIO, with "
            "failed writes (OSError at the n-th raw write) in between; index increasing, decreasing, irregular or "
            "single-sample.  Non-trivial = at least two successful writes, or a failed write followed by a successful "
            "one, or the refresh trigger held; distinct = distinct event-log digests.")
    assumptions = [
        "the snapshot is canon(strict): every section in order, per item session+original mnemonic, unit, typed value, "
        "descr, every curve array (dtype kind, shape, bit patterns), index_unit; index_initial is internal and not part "
        "of the frame",
        "STRT/STOP/STEP are refreshed with '%.5f' (update_start_stop_step's default) while the index is written with the "
        "column's format, so 'to format precision' = half a unit of the last printed digit of both formats added",
        "the written index is parsed from the output text independently of lasio's data reader",
        "index values are finite, |x| < 1e7",
    ]
    quick = {"runs": 30000, "wall": 60}
    thorough = {"runs": 200000, "wall": 900}

    # ------------------------------------------------------------------------------------------------------
    def gen(self, st, tier, index):
        g = st.gen
        rows = g.choice([1, 2, 3, 5, 8])
        ikind = g.choice(["inc", "dec", "irr"])
        r = g.random()
        if r < 0.06:
            base = {"kind": "corpus", "file": g.choice(corpus_files()), "rows": rows, "case": g.choice(["upper", "preserve"]),
                    "engine": g.choice(["numpy", "normal"])}
        elif r < 0.38:
            base = {"kind": "scratch", "ncurves": g.randint(0, 4), "rows": rows, "ikind": ikind,
                    "unit0": g.choice(UNIT_POOL), "nan": g.random() < 0.4}
        else:
            base = {"kind": "read", "ncurves": g.randint(1, 4), "rows": rows, "ikind": ikind,
                    "unit0": g.choice(UNIT_POOL[:4]), "stop": g.choice(["ok", "ok", "wrong", "wrong_tiny"]),
                    "vers": g.choice([1.2, 2.0]), "case": g.choice(["upper", "preserve", "lower"]),
                    "engine": g.choice(["numpy", "normal"]), "wrapped": g.random() < 0.2}
        edits = []
        if base["kind"] == "corpus":
            for _ in range(g.randint(0, 2)):
                q = g.random()
                if q < 0.4:
                    edits.append(["index_inplace", g.randrange(8), g.choice([0.25, -0.5, 1.0])])
                elif q < 0.7:
                    edits.append(["well_item", g.choice(["ELEV", "KB", ""]), g.choice(["M", "", "FT"]), g.choice(["", None, 0, 12.5, "x"])])
                else:
                    edits.append(["other_inplace", g.randrange(8), g.randrange(8)])
        elif base["kind"] == "read" and g.random() < 0.7 or base["kind"] == "scratch" and g.random() < 0.3:
            for _ in range(g.randint(1, 4)):
                q = g.random()
                if q < 0.3:
                    edits.append(["index_inplace", g.randrange(8), g.choice([0.25, -0.5, 1.0, 1e-4])])
                elif q < 0.45:
                    edits.append(["index_rebind", g.choice(["inc", "dec", "irr"]), g.randrange(50)])
                elif q < 0.5:
                    # the whole table is replaced (set_data / the data setter): another spacing, the same last depth
                    edits.append(["table_keep_last", g.choice([0.5, 2.0, 3.0]), g.choice(["setter", "set_data"])])
                elif q < 0.6:
                    edits.append(["well_item", g.choice(["ELEV", "KB", "ELEV", ""]), g.choice(["M", "", "FT"]),
                                  g.choice(["", None, 0, 0.0, 12.5, "x"])])
                elif q < 0.7:
                    edits.append(["param_item", g.choice(["BHT", "MUD", "BHT"]), g.choice(["DEGC", ""]),
                                  g.choice(["", None, 0, 3.5, "y"])])
                elif q < 0.76:
                    edits.append(["other_inplace", g.randrange(8), g.randrange(8)])
                elif q < 0.84:
                    edits.append(["dup_delete", g.choice(["RES", "GR", ""]), g.randint(2, 3), g.randrange(3),
                                  g.choice(["curves", "well", "params"])])
                elif q < 0.9:
                    edits.append(["rename", g.randrange(6), g.choice(["GR", "RES", "C1", "DEPT", "NEW"])])
                else:
                    edits.append(["curve", gen_curve_ops(g, 1, NAMES_PLAIN, with_set_data=False)[0]])
        kw = dict(g.choice(WKWS))
        if g.random() < 0.5:
            kw["fmt"] = g.choice(FMTS)
        nw = g.randint(1, 4)
        writes = []
        for i in range(nw):
            w = {"channel": g.choice(["path", "stream", "stringio"])}
            if i > 0 and g.random() < 0.3:
                # the object is edited between two writes (index in place / rebound / another curve), possibly after the
                # data table was looked at
                w["pre"] = [g.choice([["touch_data"], ["index_inplace", g.randrange(8), g.choice([0.25, -0.5, 100.0])],
                                      ["index_scale", g.choice([0.3048, 2.0])], ["other_inplace", g.randrange(8), g.randrange(8)],
                                      ["index_rebind", g.choice(["inc", "dec", "irr"]), g.randrange(50)],
                                      ["table_keep_last", g.choice([0.5, 2.0]), g.choice(["setter", "set_data"])]]) for _ in range(g.randint(1, 2))]
            if g.random() < 0.25 and w["channel"] != "stringio":
                w["fault"] = {"kind": "write", "nth": st.fault.randint(1, 3), "errno": st.fault.choice(["ENOSPC", "EIO"])}
            writes.append(w)
        pol = Policy.draw(st.io).to_json()
        if pol["max_write"] in (1, 3):
            pol["max_write"] = 7
        return {"base": base, "edits": edits, "kw": kw, "writes": writes, "policy": pol}

    # ------------------------------------------------------------------------------------------------------
    @staticmethod
    def mkindex(kind, rows, seed=0):
        base = 100.0 + seed
        if kind == "inc":
            return base + np.arange(rows) * 0.25
        if kind == "dec":
            return base - np.arange(rows) * 0.125
        a = base + np.cumsum(np.array([0.0, 0.5, 0.123456789, 2.0, 0.3, 0.7, 1.1, 0.05, 0.9][:rows] if rows <= 9 else np.ones(rows)))
        return a

    def build(self, sc, res):
        import lasio
        b = sc["base"]
        rows = b["rows"]
        trigger = False
        if b["kind"] == "corpus":
            import os
            las = lasio.read(os.path.join(CORPUS_DIR, b["file"]), engine=b["engine"], mnemonic_case=b["case"])
            try:
                trigger = bool(len(las.curves)) and bool(las.index_initial[-1] != las.well.STOP.value)
            except Exception:
                trigger = True
            return las, trigger
        if b["kind"] == "scratch":
            las = lasio.LASFile()
            for j in range(b["ncurves"]):
                if j == 0:
                    las.append_curve("DEPT", self.mkindex(b["ikind"], rows), unit=b["unit0"], descr="index")
                else:
                    a = np.arange(rows) * 1.5 + j * 10
                    if b.get("nan") and rows > 1:
                        a[j % rows] = np.nan
                    las.append_curve("C%d" % j, a, unit="U%d" % j, descr="curve %d" % j)
            trigger = b["ncurves"] > 0
        else:
            idx = self.mkindex(b["ikind"], rows)
            nc = b["ncurves"]

            def cell(i, j):
                return ("%.5f" % idx[i]) if j == 0 else ("%.4f" % ((i * 10 + j) * 1.25))
            lines = docmodel.simple_doc(nc, rows, vers=b["vers"], wrap="YES" if b.get("wrapped") else "NO", cell=cell,
                                        unit=b["unit0"] or "M")
            strt, stop = idx[0], idx[-1]
            step = (idx[1] - idx[0]) if rows > 1 else 0.0
            if b["stop"] == "wrong":
                stop = stop + 7.0
            elif b["stop"] == "wrong_tiny":
                stop = stop + 0.001
            u = b["unit0"] or "M"
            for k, ln in enumerate(lines):
                if ln.startswith("STRT."):
                    lines[k] = docmodel.hline("STRT", u, "%.5f" % strt, "START DEPTH", (0, 8, 1, 1))
                elif ln.startswith("STOP."):
                    lines[k] = docmodel.hline("STOP", u, "%.5f" % stop, "STOP DEPTH", (0, 8, 1, 1))
                elif ln.startswith("STEP."):
                    lines[k] = docmodel.hline("STEP", u, "%.5f" % step, "STEP", (0, 8, 1, 1))
            las = lasio.read(io.StringIO(docmodel.join(lines)), engine=b["engine"], mnemonic_case=b["case"])
            trigger = b["stop"] != "ok"
        return las, trigger

    def apply_edits(self, sc, las, res, edits=None):
        """Returns True when the index was created or changed in memory."""
        import lasio
        changed = False
        rows = sc["base"]["rows"]
        cm = None
        for e in (sc["edits"] if edits is None else edits):
            k = e[0]
            res.count("edit:" + k)
            if k == "index_inplace":
                if len(las.curves) and len(las.index) and np.asarray(las.index).dtype.kind == "f":
                    las.index[e[1] % len(las.index)] += e[2]
                    changed = True
            elif k == "touch_data":
                try:
                    las.data
                    las.index
                    las.keys()
                except Exception:
                    pass
            elif k == "index_scale":
                if len(las.curves) and len(las.index) and np.asarray(las.index).dtype.kind == "f":
                    las.curves[0].data *= e[1]
                    changed = True
            elif k == "index_rebind":
                if len(las.curves):
                    new = self.mkindex(e[1], len(las.index), e[2])
                    if not np.array_equal(new, las.index):
                        changed = True
                    las.curves[0].data = new
            elif k == "table_keep_last":
                try:
                    ok = len(las.curves) and len(las.index) >= 2 and all(np.asarray(c.data).dtype.kind == "f" for c in las.curves)
                    d = np.array(las.data, dtype=float, copy=True) if ok else None
                except Exception:
                    d = None
                if d is not None and d.ndim == 2 and np.all(np.isfinite(d[:, 0])) and d[1, 0] != d[0, 0]:
                    n = len(d)
                    step = (d[1, 0] - d[0, 0]) * e[1]
                    d[:, 0] = d[-1, 0] - step * np.arange(n - 1, -1, -1)
                    if e[2] == "setter":
                        las.data = d
                    else:
                        las.set_data(d)
                    changed = True
                    res.count("table-replaced-keeping-last-depth")
            elif k == "well_item":
                las.well.append(lasio.HeaderItem(e[1], e[2], e[3], "added %s" % e[1]))
            elif k == "param_item":
                las.params.append(lasio.HeaderItem(e[1], e[2], e[3], "added %s" % e[1]))
            elif k == "other_inplace":
                if len(las.curves) > 1:
                    c = las.curves[1 + e[1] % (len(las.curves) - 1)]
                    if c.data.dtype.kind == "f" and len(c.data):
                        c.data[e[2] % len(c.data)] += 1.0
            elif k == "dup_delete":
                _, name, cnt, which, where = e
                if where == "curves":
                    n0 = len(las.curves)
                    nrows = len(las.index) if n0 else rows
                    for t in range(cnt):
                        las.append_curve(name, np.arange(nrows) * 2.0 + t, unit="OHMM", descr="dup %d" % t)
                    if n0 == 0:
                        changed = True
                    if n0 + which < len(las.curves) and not (n0 == 0 and which == 0):
                        las.delete_curve(ix=n0 + which)
                else:
                    sec = las.well if where == "well" else las.params
                    n0 = len(sec)
                    for t in range(cnt):
                        sec.append(lasio.HeaderItem(name, "", t + 1, "dup %d" % t))
                    del sec[n0 + which % cnt]
            elif k == "rename":
                if len(las.curves) > 1:
                    las.curves[1 + e[1] % (len(las.curves) - 1)].mnemonic = e[2]
            elif k == "curve":
                if cm is None:
                    cm = CurveMachine({"kind": "fresh", "nrows": len(las.index) if len(las.curves) else rows}, Result())
                    cm.las = las
                    cm.L = [{"orig": c.original_mnemonic, "unit": c.unit, "value": c.value, "descr": c.descr, "data": None} for c in las.curves]
                    cm.check_views = lambda: None
                before0 = las.curves[0] if len(las.curves) else None
                idx_before = None if before0 is None else np.array(before0.data, copy=True)
                try:
                    cm.apply(e[1], 0)
                except Exception:
                    res.count("edit-raised")
                if len(las.curves) and (before0 is None or las.curves[0] is not before0 or
                                        not np.array_equal(np.asarray(las.curves[0].data), idx_before, equal_nan=True)):
                    changed = True
        return changed

    def run(self, sc):
        res = Result()
        fs = SimFS(policy=Policy.from_json(sc["policy"]))
        with fs:
            try:
                las, trigger = self.build(sc, res)
            except Exception as e:
                res.skipped = "base unreadable: %s" % type(e).__name__
                return res
            if self.apply_edits(sc, las, res):
                trigger = True
            # precondition of the property: the index is a finite float array and all curves have one length
            if len(las.curves):
                lens = set(len(np.asarray(c.data)) for c in las.curves)
                idx = np.asarray(las.index)
                if len(lens) != 1 or idx.dtype.kind != "f" or not np.all(np.isfinite(idx)) or \
                        any(np.asarray(c.data).dtype.kind != "f" for c in las.curves):
                    res.skipped = "edited object outside the property's domain (ragged / non-float)"
                    return res
            kw = copy.deepcopy(sc["kw"])
            if "column_fmt" in kw:
                kw["column_fmt"] = {int(k): v for k, v in kw["column_fmt"].items()}
            prev_text, prev_snap = None, None
            nsucc = 0
            failed_before_success = False
            for wi, w in enumerate(sc["writes"]):
                if w.get("pre"):
                    if self.apply_edits(sc, las, res, edits=w["pre"]):
                        trigger = True
                    if any(e[0] != "touch_data" for e in w["pre"]):
                        prev_text, prev_snap = None, None      # the object changed: the next write is not a repetition
                    res.count("writes-after-an-edit")
                before = snapshot(las)
                before_vals = {"Well": [it.value for it in las.well], "Parameter": [it.value for it in las.params]}
                path = "/simfs/c16/out%d.las" % wi
                stream = None
                fs.faults = []
                exc = None
                if w["channel"] == "path":
                    dst = path
                elif w["channel"] == "stream":
                    stream = fs.open_as_caller(path, "w", newline="")
                    dst = stream
                else:
                    stream = io.StringIO()
                    dst = stream
                if w.get("fault"):
                    f = dict(w["fault"])
                    f["nth"] = fs.kind_counts.get("write", 0) + f["nth"]
                    fs.faults = [f]
                try:
                    las.write(dst, **copy.deepcopy(kw))
                    if stream is not None and w["channel"] == "stream":
                        stream.close()
                except OSError as e:
                    exc = e
                except Exception as e:
                    # a write that refuses the object (e.g. a read LASFile whose curves were all deleted) is outside
                    # the statement: it speaks about what a write changes and emits, not about which objects are writable
                    res.count("write-raised:" + type(e).__name__)
                    res.skipped = "write raised %s (object not writable; outside the statement)" % type(e).__name__
                    break
                fs.faults = []
                if stream is not None and w["channel"] == "stream" and not stream.closed:
                    try:
                        stream.close()
                    except OSError:
                        pass
                after = snapshot(las)
                bad = allowed_diff(before, after, "wrap" in kw, before_vals)
                if bad:
                    res.violate("C16.frame", "write #%d (%s%s) changed more than the documented fields: %s" % (
                        wi, w["channel"], ", failed with %s" % type(exc).__name__ if exc else "", " | ".join(bad[:4])), step=wi)
                    break
                if exc is not None:
                    res.count("failed-writes")
                    failed_before_success = True
                    res.log.append([wi, "failed", type(exc).__name__])
                    continue
                if w.get("fault"):
                    res.count("fault-not-reached")
                text = stream.getvalue() if w["channel"] == "stringio" else fs.gettext(path)
                nsucc += 1
                res.count("successful-writes")
                if prev_text is not None:
                    if text != prev_text:
                        d = [(a, b) for a, b in zip(prev_text.split("\n"), text.split("\n")) if a != b][:2]
                        res.violate("C16.deterministic", "write #%d text differs from the previous successful write with the "
                                    "same options: %r" % (wi, d), step=wi)
                        break
                    if after != prev_snap:
                        res.violate("C16.second-write-changes-memory", "write #%d changed the in-memory object again: %s" % (
                            wi, "; ".join(C.diff(prev_snap, after))), step=wi)
                        break
                prev_text, prev_snap = text, after
                res.log.append([wi, "ok", C.sha_text(text) if hasattr(C, "sha_text") else len(text)])
                if trigger and len(las.curves):
                    self.check_truth(sc, las, text, kw, res, wi)
                    if res.violations:
                        break
            res.nontrivial = nsucc >= 2 or (failed_before_success and nsucc >= 1) or (trigger and nsucc >= 1)
            if trigger:
                res.count("runs-with-refresh-trigger")
        res.events = fs.seq
        res.merge_counts(fs.counts)
        return res

    def check_truth(self, sc, las, text, kw, res, wi):
        ncols = len(las.curves)
        well, cu, index = parse_written(text, ncols)
        if len(index) != len(las.index):
            res.count("truth-skipped-unparsed-index")
            return
        fmt0 = (kw.get("column_fmt") or {}).get(0, kw.get("fmt", "%.5f"))
        dd = decimals_of(fmt0)
        if dd is None:
            res.count("truth-skipped-format")
            return
        try:
            w = [float(t) for t in index]
        except ValueError:
            res.count("truth-skipped-unparsed-index")
            return
        d, typ = dd

        def half_unit(x):
            if typ == "f":
                return 0.5 * 10.0 ** (-d)
            if x == 0:
                return 0.0
            import math
            return 0.5 * 10.0 ** (math.floor(math.log10(abs(x))) - d)
        res.count("truth-checked")
        for name, want, tol in (("STRT", w[0], half_unit(w[0])), ("STOP", w[-1], half_unit(w[-1]))):
            if name not in well:
                res.violate("C16.truth", "write #%d: no %s line in the output" % (wi, name), step=wi)
                return
            try:
                got = float(well[name][1])
            except ValueError:
                res.violate("C16.truth", "write #%d: %s value %r is not a number" % (wi, name, well[name][1]), step=wi)
                return
            if abs(got - want) > tol + 0.5e-5 + 1e-9 * max(1.0, abs(want)):
                res.violate("C16.truth", "write #%d: %s=%r but the %s written index value is %r" % (
                    wi, name, well[name][1], "first" if name == "STRT" else "last", index[0 if name == "STRT" else -1]), step=wi)
                return
        if len(w) > 1 and w[0] != w[-1]:
            try:
                got = float(well["STEP"][1])
            except (KeyError, ValueError):
                res.violate("C16.truth", "write #%d: STEP missing or not a number: %r" % (wi, well.get("STEP")), step=wi)
                return
            want = w[1] - w[0]
            tol = half_unit(w[0]) + half_unit(w[1]) + 0.5e-5 + 1e-9 * max(1.0, abs(w[0]))
            if abs(got - want) > tol:
                res.violate("C16.truth", "write #%d: STEP=%r but the first written increment is %r (%s -> %s)" % (
                    wi, well["STEP"][1], want, index[0], index[1]), step=wi)
                return
        units = set(well[k][0] for k in ("STRT", "STOP", "STEP") if k in well)
        if len(units) != 1 or (cu is not None and units != {cu}):
            res.violate("C16.truth-units", "write #%d: STRT/STOP/STEP units %r, index curve unit %r" % (
                wi, {k: well[k][0] for k in well}, cu), step=wi)

    def shrink_lists(self, sc):
        return [("edits",), ("writes",)]

    def valid(self, sc):
        return len(sc["writes"]) >= 1

    def simplify(self, sc):
        if sc["kw"]:
            for k in list(sc["kw"]):
                d = copy.deepcopy(sc)
                del d["kw"][k]
                yield d
        if sc["policy"] != Policy().to_json():
            d = copy.deepcopy(sc)
            d["policy"] = Policy().to_json()
            yield d
        for i, w in enumerate(sc["writes"]):
            if w["channel"] != "stringio" and not w.get("fault"):
                d = copy.deepcopy(sc)
                d["writes"][i]["channel"] = "stringio"
                yield d
        b = sc["base"]
        if b["kind"] == "corpus":
            return
        for k, v in (("ncurves", 1), ("ncurves", 2), ("rows", 2), ("rows", 3), ("case", "upper"), ("wrapped", False),
                     ("engine", "normal"), ("stop", "ok"), ("nan", False)):
            if k in b and b[k] != v and not (isinstance(v, int) and not isinstance(v, bool) and b[k] < v):
                d = copy.deepcopy(sc)
                d["base"][k] = v
                yield d


PROP = C16()

PROP.rule += (" Strata added while closing seeded changes (DESIGN section 10): "
              'edits between writes incl. table replaced keeping the last depth, duplicated-then-deleted items, renames.')
PROP.rule += ' Round 8: curve values None, moved curve objects.'
