"""C15 - section lookup by key, attribute, membership and get() always agree.

Sections are built by seeded operation histories (and, for a stratum, by reading a generated file with
case normalisation on/off); after and between the building operations the probes of DESIGN B.2 are applied:
membership, item access, attribute access, get with/without add, plain-value assignment, deletion of present and
absent keys, integer keys and slices."""
import itertools

from ..core import Prop, Result
from ..sectionmachine import SectionMachine, gen_ops, NAMES, NAMES_FILE, PROBE_KEYS
from ..simfs import SimFS, Policy
from .c13 import PROP as C13PROP

SMALL = ["A", "a", "", "7", "_A"]
SMALL_PROBES = ["A", "a", "", "7", "UNKNOWN", "unknown", "A:1", "a:2", "zz", "_A", "_a", "_A:2", "_z"]


class C15(Prop):
    id = "C15"
    level = "exploration"
    rule = ("scenario = (section kind, case normalisation on/off incl. sections obtained by reading a generated file with "
            "mnemonic_case upper/lower/preserve, history mixing building operations with probes: present / absent / "
            "other-case / integer-like string keys, ints in and out of range, slices, get(add), plain-value assignment, "
            "deletion of present and absent keys); every section reachable by <= 2 insertions (+ one deletion) over "
            "{A,a,'',7} x 2 flavours is probed with the whole probe-key set on every run.  Non-trivial = at least one "
            "probe hit a present key and one an absent key; distinct = distinct event-log digests.")
    assumptions = [
        "the expected item for a key is the first item (in list order) whose session mnemonic (item.mnemonic) equals "
        "the key, compared with str.upper() when the section is case-normalised",
        "keys that are attribute names of list (append, index, ...) are not used for attribute access",
        "assignment of a HeaderItem to an integer key is not probed (the statement speaks of plain values)",
    ]
    quick = {"runs": 60000, "wall": 60}
    thorough = {"runs": 400000, "wall": 900}

    def enumerated(self, tier):
        out = []
        builds = []
        for n in SMALL:
            builds.append(["append", n])
            builds.append(["insert", 0, n])
        tails = [[], [["del_idx", 0]], [["del_key", 1]]]
        probes = [["probe", k] for k in SMALL_PROBES] + [["probe_int", i] for i in (-3, -1, 0, 1, 2)] + \
                 [["probe_slice", None, None, -1], ["probe_slice", 1, None, None], ["probe_slice", None, None, 2]] + \
                 [["probe", k] for k in SMALL_PROBES[:4]] + \
                 [["get", k, False] for k in SMALL_PROBES] + [["del_absent", k] for k in SMALL_PROBES]
        for L in ((1, 2, 3) if tier == "thorough" else (1, 2)):
            for seq in itertools.product(builds, repeat=L):
                for t in tails:
                    for tr in (False, True):
                        out.append({"base": {"kind": "bare", "transforms": tr},
                                    "ops": [list(o) for o in seq] + [list(o) for o in t] + [list(p) for p in probes],
                                    "enum": True})
        return out

    def gen(self, st, tier, index):
        g = st.gen
        if g.random() < 0.2:
            secs = {}
            for sec in ("W", "C", "P"):
                pool = g.sample(NAMES_FILE, g.randint(1, 4))
                secs[sec] = [g.choice(pool) for _ in range(g.randint(0, 5))]
            case = g.choice(["preserve", "upper", "lower"])
            base = {"kind": "read", "file": {"sections": secs, "vers": g.choice([1.2, 2.0])}, "case": case,
                    "transforms": case != "preserve", "section": g.choice(["well", "curves", "params"]),
                    "channel": g.choice(["path", "string", "stream"]), "policy": Policy.draw(st.io).to_json()}
        else:
            base = {"kind": g.choice(["bare", "bare", "well", "params", "curves", "version"]),
                    "transforms": g.random() < 0.5}
        ops = gen_ops(g, g.randint(2, 16), NAMES, c15=True)
        return {"base": base, "ops": ops}

    def run(self, sc):
        res = Result()
        b = sc["base"]
        fs = SimFS(policy=Policy.from_json(b.get("policy")))
        with fs:
            if b["kind"] == "read":
                r0 = Result()
                las = C13PROP.build_read_base(sc, r0, fs)
                if las is None:
                    res.violate("C15.read-raised", r0.violations[0]["msg"] if r0.violations else "reading the generated file failed")
                    return res
                m = SectionMachine({"kind": "bare", "transforms": b["transforms"]}, res, check13=False, check15=True)
                m.las = las
                m.kind = b["section"]
                m.s = {"well": las.well, "curves": las.curves, "params": las.params}[b["section"]]
                m.ci = bool(m.s.mnemonic_transforms)
                m.M = [{"item": it, "orig": it.original_mnemonic} for it in list.__iter__(m.s)]
                m.nrows = 3
            else:
                m = SectionMachine(b, res, check13=False, check15=True)
            for i, op in enumerate(sc["ops"]):
                try:
                    m.apply(op, i)
                except Exception as e:
                    res.violate("C15.op-raised", "step %d: %r raised %s: %s" % (i, op, type(e).__name__, str(e)[:200]), step=i)
                    break
                res.log.append([i, op, [it.mnemonic for it in m.real_items()]])
                if res.violations:
                    break
        c = res.counts
        res.nontrivial = (c.get("probe:present", 0) + c.get("get:present", 0) > 0) and \
                         (c.get("probe:absent", 0) + c.get("get:absent", 0) + c.get("get:absent-add", 0) + c.get("del-absent", 0) > 0)
        res.events = fs.seq + len(sc["ops"])
        return res

    def shrink_lists(self, sc):
        return [("ops",)]

    def simplify(self, sc):
        if sc["base"]["kind"] != "bare":
            c = dict(sc)
            c["base"] = {"kind": "bare", "transforms": sc["base"].get("transforms", False)}
            yield c


PROP = C15()

PROP.rule += (" Strata added while closing seeded changes (DESIGN section 10): "
              'probe purity (a read never changes the section, curve samples included), underscore / case-quirk names, history continued on pickle/copy/deepcopy of the section.')
PROP.rule += ' Round 8: keys with stray blanks.'
