"""C02 - the fast (numpy) and the reference (normal) data engines return identical curves.

Differential check over the stream protocol: the same generated document is delivered through a drawn channel /
codec / newline style / delivery policy and read with engine='numpy', engine='normal' and - in a fraction of runs -
with the fast engine forced to fail on entry (buggify), which the fallback must mask.  The engine trace obtained
through the module-attribute seam makes the comparison non-vacuous."""
import copy

import numpy as np

from .. import canon as C
from .. import docmodel
from ..channels import draw_read_channel, read_via
from ..core import Prop, Result
from ..engines import EngineTrace
from ..simfs import SimFS, Policy
from ..swarm import neutral_read_kw, fix_kw

INTS = ["0", "7", "12", "-3", "+4", "100", "-250", "99999"]
FIXED = ["0.0", "1.5", "-2.25", "+3.125", "10.0001", "-0.5", "123.456", "0.001"]
EXPO = ["1e3", "1.5E-2", "-2.5e+3", "6E0", "1.25e-10", "-7.5E2"]
ODD = [".5", "5.", "-.5", "+.25", "-5.", "0.", ".0"]
NULLS = ["-999.25", "-999.2500", "-9.9925E2", "-999.250"]
TEXTCELLS = ["#N/A", "#DIV/0!", "#VALUE!", "abc", "N/A", "1#2", "#", "n#a", "SAND"]
SEPS = [" ", "  ", "\t", " \t", "    ", "\t\t"]
LEADS = ["", " ", "   ", "\t", "  \t"]
TRAILS = ["", " ", "   ", "\t"]
NOISE = ["", "   ", "\t", "# a comment", "#", "# 1 2 3", "  # indented comment", "# page\x0cbreak", "\x0c", "# nel\x85here", "# vt\x0b fs\x1c gs\x1d rs\x1e",
         "# ls\u2028 ps\u2029", "\x1c"]
TITLES = ["~A", "~ASCII", "~Ascii Data", "~A  DEPT  C1  C2", "~ASCII -----------------"]
TAILS = [
    ["~Parameter Information", "BHT .DEGC   35.5 : BOTTOM HOLE TEMPERATURE", "MUD .   GEL : MUD TYPE"],
    ["~Other", "some text 1 2 3", "4 5 6"],
    ["~Xtra custom section", "K1 .   11 : custom item"],
    ["~Parameter Information"],
    ["~Other"],
]


PRELUDES = {
    "COMMA": "~V\nVERS. 2.0:\nWRAP. NO:\nDLM . COMMA:\n~W\nNULL. -999.25:\n~C\nDEPT.M:\nA.:\n~A\n1.0,2.0\n2.0,3.0\n",
    "TAB": "~V\nVERS. 2.0:\nWRAP. NO:\nDLM . TAB:\n~W\nNULL. -999.25:\n~C\nDEPT.M:\nA.:\n~A\n1.0\t2.0\n2.0\t3.0\n",
    "WRAP": "~V\nVERS. 2.0:\nWRAP. YES:\n~W\nNULL. -5:\n~C\nDEPT.M:\nA.:\nB.:\n~A\n1.0\n2.0 3.0\n2.0\n3.0 4.0\n",
}


def gen_cell(g, j, i):
    r = g.random()
    if j == 0:
        if g.random() < 0.12:
            return g.choice([".5", "-.25", "+.5", "-.5", ".125", "+.75"])         # index samples spelled without a leading digit
        return g.choice(["%d" % (100 + i), "%.2f" % (100 + i * 0.5), "%.1fE1" % (10 + i), "%d." % (100 + i)])
    if r < 0.08:
        return g.choice(NULLS)
    pool = INTS if r < 0.3 else FIXED if r < 0.6 else EXPO if r < 0.8 else ODD
    return g.choice(pool)


def build_text(sc):
    nc = sc["ncols"]
    nd = max(0, nc + sc.get("declared_delta", 0))
    curves = ([("DEPT", "M", "", "index")] + [("C%d" % j, "U", "", "curve %d" % j) for j in range(1, nd)])[:nd]
    lines = docmodel.version_section(sc.get("vers", 2.0), "NO", sc.get("dlm"))
    lines += docmodel.well_section(100.0, 101.0, 0.5, sc.get("null", "-999.25"), "M", (("COMP", "", "ACME", "COMPANY"),), version=sc.get("vers", 2.0))
    lines += docmodel.curve_section(curves)
    for s in sc.get("pre", []):
        lines += s
    lines.append(sc["title"])
    noise = {}
    for pos, txt in sc["noise"]:
        noise.setdefault(min(pos, len(sc["rows"])), []).append(txt)
    for i, r in enumerate(sc["rows"]):
        lines += noise.get(i, [])
        if r.get("seps"):
            body = r["cells"][0] + "".join(sp + c for sp, c in zip(r["seps"], r["cells"][1:]))
        else:
            body = r["sep"].join(r["cells"])
        lines.append(r["lead"] + body + r["trail"])
    lines += noise.get(len(sc["rows"]), [])
    for s in sc["tail"]:
        lines += s
    return docmodel.join(lines, "\n", sc["final_newline"])


class C02(Prop):
    id = "C02"
    level = "exploration"
    rule = ("scenario = unwrapped, blank/tab-separated document with rows>=1 x cols>=1 (1x1, 1xn, nx1 strata), cells in "
            "plain decimal spellings (int, fixed, exponent, signed, '.5', '5.', NULL spellings), per-row lead/separator/"
            "trail padding, blank and '#' lines at any site of the data section incl. first and last, ~A last or followed by "
            "~P/~O/custom sections (or preceded by them), LF/CRLF/CR-for-files, with/without final newline, delivered "
            "through path/Path/stream/StringIO/string x codec x delivery policy; read with numpy, normal, and numpy with "
            "the fast engine forced to fail.  The 3x3x5x2x2x2 core lattice (cols x rows x trailer x ~A placement x final "
            "newline x EOL) is swept completely on every run.  Non-trivial = the fast engine really produced the data of "
            "the numpy read (engine trace); distinct = distinct event-log digests.")
    assumptions = [
        "the default read/null policies are used (the statement's domain); WRAP=NO, DLM=SPACE",
        "when both engines raise on an input the run is counted, not failed (the statement is differential)",
        "the engine trace comes from wrapping lasio.reader.read_data_section_iterative_{numpy,normal}_engine from outside; "
        "if those names disappear the trace degrades to 'unavailable' and nothing is reported",
    ]
    quick = {"runs": 25000, "wall": 60}
    thorough = {"runs": 300000, "wall": 900}

    def enumerated(self, tier):
        out = []
        trailers = [[], [[0, ""]], [[0, "# c"]], [[0, ""], [0, "# c"]], [[0, "# c"], [0, ""]]]
        big = tier == "thorough"
        for nc in ((1, 2, 3, 4, 7) if big else (1, 2, 3)):
            for nr in ((1, 2, 3, 4, 21, 22) if big else (1, 2, 3)):
                for t in trailers:
                    for tail in (([], [TAILS[0]], [TAILS[1]], [TAILS[2]], [TAILS[0], TAILS[1]]) if big else ([], [TAILS[0]])):
                        for fn in (True, False):
                            for nl in ("\n", "\r\n"):
                                rows = [{"cells": ["%d" % (100 + i)] + ["%d.5" % (i * 10 + j) for j in range(1, nc)],
                                         "lead": " ", "sep": " ", "trail": ""} for i in range(nr)]
                                out.append({"ncols": nc, "rows": rows, "noise": [[nr, x[1]] for x in t], "title": "~A",
                                            "tail": tail, "pre": [], "final_newline": fn, "vers": 2.0,
                                            "channel": {"channel": "stringio", "codec": "utf-8", "explicit": False, "newline": nl},
                                            "policy": Policy().to_json(), "force_fallback": False, "enum": True})
        return out

    def gen(self, st, tier, index):
        g = st.gen
        shape = g.random()
        nc = 1 if shape < 0.15 else g.randint(1, 6)
        nr = 1 if 0.1 < shape < 0.3 else g.randint(1, 9)
        if g.random() < 0.05:
            nr = g.randint(18, 30)
        elif g.random() < 0.03:
            nr = 0                     # a data section without any row (title only), possibly followed by other sections
        rows = []
        dlm = g.choice([None, None, "SPACE", "TAB"])
        seps = [s for s in SEPS if "\t" in s] + ["\t ", " \t "] if dlm == "TAB" else SEPS
        same_pad = g.random() < 0.3          # identical padding on every line (e.g. a trailing tab everywhere)
        pad = (g.choice(LEADS), g.choice(seps), g.choice(TRAILS))
        for i in range(nr):
            l, sp, t = pad if same_pad else (g.choice(LEADS), g.choice(seps), g.choice(TRAILS))
            rows.append({"cells": [gen_cell(g, j, i) for j in range(nc)], "lead": l, "sep": sp, "trail": t})
            if dlm != "TAB" and nc >= 3 and g.random() < 0.2:
                rows[-1]["seps"] = [g.choice([" ", "\t", "  ", " \t", "\t "]) for _ in range(nc - 1)]     # blanks and tabs mixed on one line
        if nc >= 2 and g.random() < 0.1:
            # a column with non-numeric tokens (spreadsheet error markers start with '#'): the fast engine cannot take it,
            # the result must still be what the reference engine returns
            jt = g.randrange(1, nc)
            allrows = g.random() < 0.5
            for row in rows:
                if allrows or g.random() < 0.5:
                    row["cells"][jt] = g.choice(TEXTCELLS)
        noise = []
        if g.random() < 0.6:
            for _ in range(g.randint(1, 4)):
                pos = g.choice([0, nr, nr, g.randint(0, nr)])
                noise.append([pos, g.choice(NOISE)])
        tail, pre = [], []
        r = g.random()
        if r < 0.45:
            tail = [list(t) for t in g.sample(TAILS[:3], g.randint(1, 2))]
        elif r < 0.6:
            pre = [list(g.choice(TAILS[:3]))]
        elif r < 0.64:
            # a very long physical line ahead of the data section (longer than any I/O buffer)
            pre = [["~Other", "long " * g.choice([1700, 2000, 4000]), "short"]]
        cfg = draw_read_channel(g, ascii_only=True)
        null = "-999.25"
        if g.random() < 0.25:
            # a NULL value that also occurs in the index column (index samples are never nulled) or as an ordinary cell
            null = g.choice(([rows[g.randrange(nr)]["cells"][0]] if nr else []) + ["0", "7", "1.5", "100", "101.0"])
        delta = g.choice([-2, -1, 1, 2, 3]) if g.random() < 0.15 else 0
        return {"declared_delta": delta, "null": null, "case": g.choice(["upper", "upper", "lower", "preserve"]), "nkw": neutral_read_kw(g, exclude=("null_policy", "dtypes")), "ncols": nc, "rows": rows, "noise": noise, "title": g.choice(TITLES), "tail": tail, "pre": pre,
                "final_newline": g.random() < 0.6, "vers": g.choice([1.2, 2.0]), "dlm": dlm, "channel": cfg,
                "policy": Policy.draw(st.io).to_json(), "force_fallback": st.fault.random() < 0.3,
                # the LASFile object that reads the document has read another one before (declaring a delimiter or wrapping)
                "prelude": g.choice(["COMMA", "TAB", "WRAP"]) if g.random() < 0.08 else None}

    def read(self, sc, text, engine, force=False):
        fs = SimFS(policy=Policy.from_json(sc["policy"]))
        with fs, EngineTrace(force_numpy_fail=force) as tr:
            try:
                into = None
                if sc.get("prelude"):
                    import io
                    import lasio
                    into = lasio.LASFile()
                    into.read(io.StringIO(PRELUDES[sc["prelude"]]), engine=engine)
                las = read_via(fs, text, sc["channel"], fix_kw(dict(sc.get("nkw") or {}, engine=engine, mnemonic_case=sc.get("case", "upper"))), tag="c02",
                               into=into)
                return las, None, tr, fs
            except Exception as e:
                return None, e, tr, fs

    def run(self, sc):
        res = Result()
        text = build_text(sc)
        a, ea, ta, fsa = self.read(sc, text, "numpy")
        b, eb, tb, fsb = self.read(sc, text, "normal")
        res.events = fsa.seq + fsb.seq
        res.merge_counts(fsa.counts)
        res.count("numpy-read:" + (ta.produced_by() if ta.available else "trace-unavailable"))
        res.log.append([ta.trace, tb.trace, type(ea).__name__ if ea else None, type(eb).__name__ if eb else None])
        if ea is not None and eb is not None:
            res.count("both-engines-raised:%s" % type(eb).__name__)
            res.skipped = "both engines raise on this input"
            return res
        if (ea is None) != (eb is None):
            e = ea or eb
            res.violate("C02.one-engine-raised", "engine=%s raised %s: %s while engine=%s succeeded (rows=%d cols=%d)" % (
                "numpy" if ea else "normal", type(e).__name__, str(e).strip().splitlines()[-1][:200] if str(e).strip() else "",
                "normal" if ea else "numpy", len(sc["rows"]), sc["ncols"]))
            return res
        self.compare(res, a, b, "numpy", "normal")
        res.nontrivial = ta.available and ta.produced_by() == "numpy"
        if sc.get("force_fallback") and not res.violations:
            c, ec, tc, fsc = self.read(sc, text, "numpy", force=True)
            res.events += fsc.seq
            res.count("forced-fast-engine-failures", tc.trace.count("numpy-forced-fail"))
            res.log.append(["forced", tc.trace, type(ec).__name__ if ec else None])
            if ec is not None:
                res.violate("C02.fallback", "with the fast engine failing on entry the read raised %s: %s" % (
                    type(ec).__name__, str(ec).strip().splitlines()[-1][:200] if str(ec).strip() else ""))
            else:
                self.compare(res, c, b, "numpy-with-forced-fallback", "normal", oracle="C02.fallback")
        if not res.violations:
            res.log.append(C.sha_text(repr(C.canon(b))))
        return res

    def compare(self, res, a, b, na, nb, oracle="C02.data"):
        ca, cb = list(a.curves), list(b.curves)
        if len(ca) != len(cb):
            res.violate(oracle, "%s gives %d curves, %s gives %d" % (na, len(ca), nb, len(cb)))
            return
        for j, (x, y) in enumerate(zip(ca, cb)):
            dx, dy = np.asarray(x.data), np.asarray(y.data)
            if dx.shape != dy.shape:
                res.violate(oracle, "curve #%d shape %r (%s) vs %r (%s)" % (j, dx.shape, na, dy.shape, nb))
                return
            if dx.dtype != dy.dtype:
                res.violate(oracle, "curve #%d dtype %s (%s) vs %s (%s)" % (j, dx.dtype, na, dy.dtype, nb))
                return
            if dx.dtype.kind == "f":
                if not np.array_equal(np.isnan(dx), np.isnan(dy)):
                    res.violate(oracle, "curve #%d NaN positions differ: %r (%s) vs %r (%s)" % (j, dx.tolist()[:8], na, dy.tolist()[:8], nb))
                    return
                m = ~np.isnan(dx)
                if dx[m].tobytes() != dy[m].tobytes():
                    res.violate(oracle, "curve #%d values differ: %r (%s) vs %r (%s)" % (j, dx.tolist()[:8], na, dy.tolist()[:8], nb))
                    return
            elif dx.tolist() != dy.tolist():
                res.violate(oracle, "curve #%d values differ: %r (%s) vs %r (%s)" % (j, dx.tolist()[:8], na, dy.tolist()[:8], nb))
                return
        ha = C.canon(a, data=False)
        hb = C.canon(b, data=False)
        if ha != hb:
            res.violate("C02.header" if oracle == "C02.data" else oracle, "header sections differ between %s and %s: %s" % (na, nb, "; ".join(C.diff(ha, hb))))

    def shrink_lists(self, sc):
        return [("rows",), ("noise",), ("tail",), ("pre",)]

    def valid(self, sc):
        return len(sc["rows"]) >= 1 and sc["ncols"] >= 1

    def simplify(self, sc):
        if sc["ncols"] > 1:
            d = copy.deepcopy(sc)
            d["ncols"] -= 1
            for r in d["rows"]:
                r["cells"] = r["cells"][:-1]
            yield d
        for i, r in enumerate(sc["rows"]):
            std = ("", "\t", "") if sc.get("dlm") == "TAB" else (" ", " ", "")
            if (r["lead"], r["sep"], r["trail"]) != std or r.get("seps"):
                d = copy.deepcopy(sc)
                d["rows"][i].update({"lead": std[0], "sep": std[1], "trail": std[2]})
                d["rows"][i].pop("seps", None)
                yield d
        if sc.get("dlm") == "SPACE":
            d = copy.deepcopy(sc)
            d["dlm"] = None
            yield d
        if sc["channel"]["channel"] != "stringio":
            d = copy.deepcopy(sc)
            d["channel"] = {"channel": "stringio", "codec": "utf-8", "explicit": False,
                            "newline": "\r\n" if sc["channel"]["newline"] == "\r\n" else "\n"}
            yield d
        if sc["channel"]["newline"] != "\n":
            d = copy.deepcopy(sc)
            d["channel"]["newline"] = "\n"
            yield d
        if sc["policy"] != Policy().to_json():
            d = copy.deepcopy(sc)
            d["policy"] = Policy().to_json()
            yield d
        if sc["title"] != "~A":
            d = copy.deepcopy(sc)
            d["title"] = "~A"
            yield d
        if not sc["final_newline"]:
            d = copy.deepcopy(sc)
            d["final_newline"] = True
            yield d
        if sc.get("force_fallback"):
            d = copy.deepcopy(sc)
            d["force_fallback"] = False
            yield d


PROP = C02()

PROP.rule += (" Strata added while closing seeded changes (DESIGN section 10): "
              "declared curve counts differing from the columns, NULL equal to index samples, mixed tab/blank separators, odd line-break characters in noise, text cells incl. '#N/A' markers, data sections without rows, a line longer than any buffer ahead of ~A, reads into a LASFile that has read a DLM/WRAP file before.")
