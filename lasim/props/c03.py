"""C03 - header metadata survives write -> read in every section and both versions.

A LASFile is built in memory from seeded item lists drawn from the statement's conformant alphabet (duplicates,
blank mnemonics, punctuation/quotes/brackets inside values and descriptions, empty fields, numeric and textual
values, each item in turn the widest of its section), written as 1.2 or 2.0 through a simulated output channel /
codec and read back through a simulated input channel with mnemonic_case preserve/upper/lower."""
import copy
import re

import numpy as np

from ..channels import draw_read_channel, read_via, write_via
from ..core import Prop, Result
from ..simfs import SimFS, Policy
from ..swarm import neutral_read_kw, neutral_write_kw, fix_kw

MNEMS = ["COMP", "WELL", "FLD", "LOC", "Comp", "wellName", "X1", "RUN_2", "A-B", "EKB", "DF", "BHT", "a", "LONGMNEMONIC_NAME_XYZ", "R#",
         "0", "1", "-1", "NAN"]          # numerals as mnemonics (numbered array channels): never to be taken for positions
UNITS = ["", "", "M", "FT", "US/F", "K/M3", "%", "1/S", "DEG.C", "OHM.M", "0.1IN", "m", "MM/HR", "m:s", "G/C3", "LB/F",
         "ft(US)", "in(nom)", "(lbf)/gal", "[psi]a", "m]"]
TEXTV = ["ACME OIL", "ANY ET AL 12-34-12-34", "W-1", "it's \"quoted\"", "(bracketed) [text]", "SEC 12,13 T4N R5W", "a.b.c", "x/y; z",
         "value with trailing dot.", "12-OCT-2004", "1200..1350", "see run 2..", "a..b c", "NAN", "nan", "Nan", "inf", "-INF", "Infinity", "Åsgard Ølje", "Société", "= + * & % $", "A", "GEL CHEM", "1,250 M DRILLER"]
NUMV = [0, 1, -7, 35.5, 0.001, -1234.5678, 200, 1e-05, 2.5e+20, 123456789, 0.0, 9007199254740993, -9007199254740995,
        1234567890123456789, 4611686018427387905, 10 ** 20, 2 ** 64, -(2 ** 70)]
DESCRS = ["", "COMPANY", "a description. with dots.", "descr (with) [brackets] 'q' \"qq\"", "x", "1 2 3", "UNIT/DEPTH", "Ærø",
          "long long long long long long description text 0123456789", "ends with dot."]
OTHERS = ["", "one line of text", "first line\nsecond: with colon\n#not a comment\n.. dots", "a\n\nb after an empty line", "tabs\tinside  and   blanks"]
CASEF = {"preserve": lambda x: x, "upper": lambda x: x.upper(), "lower": lambda x: x.lower()}


def numeric_like(s):
    try:
        float(s.replace(",", "."))
        return True
    except ValueError:
        return False


class C03(Prop):
    id = "C03"
    level = "exploration"
    rule = ("scenario = item lists for ~Version (extra items), ~Well, ~Curves, ~Parameter (0..6 items each, duplicates and "
            "blank mnemonics included) with fields from the conformant alphabet (units with interior dots, slashes, %, digits; "
            "values numeric or textual with punctuation, quotes, brackets, digit-comma-digit, non-ASCII; empty fields), one "
            "item per section stretched to be the widest, ~Other text, x version 1.2/2.0 x mnemonic_case x output channel/"
            "codec x input channel/newline/delivery.  Non-trivial = a duplicate or blank mnemonic, or an empty value with a "
            "unit, or a stretched item occurs; distinct = distinct event-log digests.")
    assumptions = [
        "the statement's conformance mask is applied literally (Appendix C); textual values are not numeric-looking and "
        "contain at least one letter, so that the number conversion of C08 is not involved",
        "VERS itself is not compared (writing 'as version v' substitutes it); STRT/STOP/STEP values+units and the index "
        "curve's unit are not compared (documented refresh/alignment); an empty value on a ~Well/~Parameter item with a "
        "unit is expected back as 0",
        "blank mnemonics only on items whose unit, value and description contain no period",
        "~Other lines carry no leading/trailing blanks and the text does not end in a newline",
    ]
    quick = {"runs": 30000, "wall": 60}
    thorough = {"runs": 300000, "wall": 900}

    def gen_items(self, g, n, curves=False, allow_dup=True):
        items = []
        pool = g.sample(MNEMS, min(len(MNEMS), max(1, n)))
        for i in range(n):
            m = g.choice(pool) if allow_dup and g.random() < 0.3 else pool[i % len(pool)]
            blank = g.random() < 0.07
            u = g.choice(UNITS)
            if g.random() < 0.5:
                v = g.choice(NUMV)
            else:
                v = g.choice(TEXTV) if g.random() < 0.85 else ""
            d = g.choice(DESCRS)
            if curves:
                v = g.choice(["", "", "45 310 01 00", "7 350 01 00", "API", 42]) if g.random() < 0.6 else v
                if isinstance(v, str) and ".." in v:
                    v = "x"
            if blank:
                m = ""
                u = u if "." not in u else "M"
                v = v if "." not in str(v) else 12
                d = d if "." not in d else "no period here"
            items.append([m, u, v, d])
        return items

    def gen(self, st, tier, index):
        g = st.gen
        nonascii_ok = g.random() < 0.5
        secs = {"version": self.gen_items(g, g.choice([0, 0, 0, 1, 2]), allow_dup=False),
                "well": self.gen_items(g, g.randint(0, 6)),
                "curves": self.gen_items(g, g.randint(0, 5), curves=True),
                "params": self.gen_items(g, g.randint(0, 6))}
        if not nonascii_ok:
            for its in secs.values():
                for it in its:
                    for k in (2, 3):
                        if isinstance(it[k], str) and not it[k].isascii():
                            it[k] = "ascii only"
        # stretch one item of one section so that it is the widest of its section
        if g.random() < 0.6:
            sec = g.choice([k for k in secs if secs[k]] or ["well"])
            if secs[sec]:
                it = g.choice(secs[sec])
                what = g.choice(["unit+empty", "value", "mnemonic", "unit", "descr"])
                if what == "unit+empty":
                    it[1], it[2] = "VERYLONGUNIT/ABCDEFGHIJKLMNOPQRSTUVWXYZ" + "X" * g.randint(0, 30), ""
                elif what == "value":
                    it[2] = "long value " + "v" * g.randint(40, 90) + " end"
                elif what == "mnemonic" and it[0]:
                    it[0] = "M" * g.randint(20, 40)
                elif what == "unit":
                    it[1] = "U/" + "U" * g.randint(20, 50)
                else:
                    it[3] = "d" * g.randint(50, 100)
        special = None
        if g.random() < 0.25:
            # the four ~Well items with their own layout rule in 1.2: terse descriptions, long values
            special = {"descr": g.choice(["", "x", "NULL", "START"]), "null": g.choice([-999.2500001, -99999.123456, -9999.25]),
                       "index0": g.choice([100.0, 123456.789, 0.000125])}
            if g.random() < 0.7:
                for it in secs["well"]:
                    it[3] = g.choice(["", "d", "xy"])
                    if isinstance(it[2], str):
                        it[2] = g.choice(["", "v", "ab"])
        if g.random() < 0.1:
            # an extra ~Well item whose mnemonic is a mixed-case spelling of one of the four names with their own 1.2 layout
            secs["well"].insert(g.randint(0, len(secs["well"])), [g.choice(["Stop", "Null", "Strt", "Step", "nUlL"]), g.choice(["", "M"]),
                                                                   g.choice(["TD reached", 12.5, "x"]), g.choice(["Reason logging stopped", "d", ""])])
        if g.random() < 0.12:
            # a second NULL item (duplicate of one of the four ~Well mnemonics with their own 1.2 layout)
            secs["well"].insert(g.randint(0, len(secs["well"])), ["NULL", "", g.choice([-999.2500001234, -9999, "none"]), g.choice(["", "x", "second null"])])
        other = g.choice(OTHERS)
        codec = g.choice(["utf-8", "utf-8", "utf-16", "cp1252", "latin-1", "utf-8-sig"])
        cfg = draw_read_channel(g, ascii_only=False, encodable=[codec], used_object_p=0.06)
        if cfg["channel"] in ("path", "Path", "stream"):
            cfg["explicit"] = True
        return {"secs": secs, "other": other, "version": g.choice([1.2, 2.0]), "case": g.choice(["preserve", "upper", "lower"]),
                "rows": g.randint(1, 3), "out": g.choice(["path", "stream", "stringio"]), "codec": codec, "channel": cfg,
                "policy": Policy.draw(st.io).to_json(), "engine": g.choice(["numpy", "normal"]), "null": g.choice([None, -999.25]), "special": special,
                "nkw": neutral_read_kw(g), "nwkw": neutral_write_kw(g)}

    # -----------------------------------------------------------------------------------------------------
    def run(self, sc):
        import lasio
        res = Result()
        secs = sc["secs"]
        las = lasio.LASFile()
        if sc["null"] is not None:
            las.well["NULL"].value = sc["null"]
        # ~Well: keep STRT/STOP/STEP/NULL, drop the other defaults, add ours
        for m in [it.mnemonic for it in las.well][4:]:
            del las.well[m]
        four = list(las.well)[:4]         # STRT, STOP, STEP, NULL
        for m, u, v, d in secs["version"]:
            las.version.append(lasio.HeaderItem(m, u, v, d))
        for m, u, v, d in secs["well"]:
            las.well.append(lasio.HeaderItem(m, u, v, d))
        for m, u, v, d in secs["params"]:
            las.params.append(lasio.HeaderItem(m, u, v, d))
        rows = sc["rows"]
        sp = sc.get("special")
        sdescr = {"STRT": "START DEPTH", "STOP": "STOP DEPTH", "STEP": "STEP", "NULL": "NULL VALUE"}
        if sp:
            four[3].value = sp["null"]
            for it in four:
                it.descr = sp["descr"]
                sdescr[it.original_mnemonic] = sp["descr"]
        las.append_curve("DEPT", np.arange(rows) * 0.5 + (sp["index0"] if sp else 100), unit="M", descr="index")
        for j, (m, u, v, d) in enumerate(secs["curves"]):
            las.append_curve(m, np.arange(rows) + 10.0 * (j + 1), unit=u, value=v, descr=d)
        las.other = sc["other"]
        allitems = [it for k in secs for it in secs[k]]
        names = [it[0] for it in allitems]
        res.nontrivial = ("" in names) or any(it[1] and it[2] == "" for it in allitems) or any(
            len(str(x)) > 35 for it in allitems for x in it) or len(set(names)) < len(names)
        fs = SimFS(policy=Policy.from_json(sc["policy"]))
        codec = sc["codec"] if sc["out"] == "stream" else "utf-8"
        text_all = "".join(str(x) for it in allitems for x in it) + sc["other"]
        try:
            text_all.encode(codec)
            text_all.encode(sc["channel"]["codec"])
        except UnicodeEncodeError:
            res.skipped = "text not encodable in the drawn codec"
            return res
        with fs:
            try:
                text = write_via(fs, las, sc["out"], fix_kw(dict(sc.get("nwkw") or {}, version=sc["version"])), tag="c03", codec=codec)
            except Exception as e:
                res.violate("C03.write-raised", "write(version=%r) raised %s: %s" % (sc["version"], type(e).__name__, str(e)[:200]))
                return res
            try:
                back = read_via(fs, text, sc["channel"], fix_kw(dict(sc.get("nkw") or {}, mnemonic_case=sc["case"], engine=sc["engine"])), tag="c03")
            except Exception as e:
                res.violate("C03.unreadable", "lasio cannot read its own header back (version=%r case=%s): %s: %s" % (
                    sc["version"], sc["case"], type(e).__name__, str(e).strip().splitlines()[-1][:300] if str(e).strip() else ""))
                return res
        res.events = fs.seq
        res.merge_counts(fs.counts)
        res.log.append([sc["version"], sc["case"], sc["out"], sc["codec"], sc["channel"], names, len(text)])
        cf = CASEF[sc["case"]]
        nullv = sp["null"] if sp else (sc["null"] if sc["null"] is not None else -9999.25)
        expect = {
            "Version": [["VERS", None, None, None], ["WRAP", "", "NO", "One line per depth step"],
                        ["DLM", "", "SPACE", "Column Data Section Delimiter"]] + [list(it) for it in secs["version"]],
            "Well": [["STRT", None, None, sdescr["STRT"]], ["STOP", None, None, sdescr["STOP"]], ["STEP", None, None, sdescr["STEP"]],
                     ["NULL", "", nullv, sdescr["NULL"]]] + [list(it) for it in secs["well"]],
            "Curves": [["DEPT", "M", "", "index"]] + [list(it) for it in secs["curves"]],
            "Parameter": [list(it) for it in secs["params"]],
        }
        for name, want in expect.items():
            got = back.sections.get(name)
            if got is None or isinstance(got, str):
                res.violate("C03.section", "section %s missing after the round trip" % name)
                return res
            gi = [[it.original_mnemonic, it.unit, it.value, it.descr] for it in got]
            if len(gi) != len(want):
                res.violate("C03.items", "~%s came back with items %r, written %r (version=%r)" % (
                    name, [x[0] for x in gi], [x[0] for x in want], sc["version"]))
                return res
            for k, (x, y) in enumerate(zip(gi, want)):
                m, u, v, d = y
                if x[0] != cf(m):
                    res.violate("C03.mnemonic", "~%s item #%d mnemonic %r came back as %r (case=%s)" % (name, k, m, x[0], sc["case"]))
                    return res
                if u is not None and x[1] != u:
                    res.violate("C03.unit", "~%s item %r unit %r came back as %r (value %r; version=%r)" % (name, m, u, x[1], v, sc["version"]))
                    return res
                if v is not None:
                    ev = v
                    if name in ("Well", "Parameter") and u and ev == "":
                        ev = 0
                    if not self.veq(x[2], ev):
                        res.violate("C03.value", "~%s item %r (unit %r) value %r came back as %r (version=%r case=%s)" % (
                            name, m, u, v, x[2], sc["version"], sc["case"]))
                        return res
                if d is not None and x[3] != d:
                    res.violate("C03.descr", "~%s item %r description %r came back as %r (version=%r)" % (name, m, d, x[3], sc["version"]))
                    return res
        if back.other != sc["other"]:
            res.violate("C03.other", "~Other %r came back as %r" % (sc["other"], back.other))
        return res

    @staticmethod
    def veq(got, want):
        if isinstance(want, int) and not isinstance(want, bool) and 2 ** 53 < abs(want) < 2 ** 63:
            try:
                return int(got) == want and not isinstance(got, float)      # exact: beyond 2**53 a float cannot carry it
            except (TypeError, ValueError):
                return False
        if isinstance(want, (int, float)) and not isinstance(want, bool):
            try:
                return float(got) == float(want)
            except (TypeError, ValueError):
                return False
        return isinstance(got, str) and got == want

    def shrink_lists(self, sc):
        return [("secs", k) for k in ("version", "well", "curves", "params")]

    def simplify(self, sc):
        for k, v in (("special", None), ("other", ""), ("out", "stringio"), ("codec", "utf-8"), ("case", "preserve"), ("rows", 1), ("null", None),
                     ("engine", "normal")):
            if sc[k] != v:
                d = copy.deepcopy(sc)
                d[k] = v
                yield d
        if sc["channel"]["channel"] != "stringio" or sc["channel"]["newline"] != "\n":
            d = copy.deepcopy(sc)
            d["channel"] = {"channel": "stringio", "codec": "utf-8", "explicit": False, "newline": "\n"}
            yield d
        if sc["policy"] != Policy().to_json():
            d = copy.deepcopy(sc)
            d["policy"] = Policy().to_json()
            yield d
        for sec in ("version", "well", "curves", "params"):
            for i, it in enumerate(sc["secs"][sec]):
                for f, simple in ((1, ""), (3, ""), (2, 1), (0, "A")):
                    if it[f] != simple and not (f == 0 and it[0] == ""):
                        d = copy.deepcopy(sc)
                        d["secs"][sec][i][f] = simple
                        yield d


PROP = C03()

PROP.rule += (" Strata added while closing seeded changes (DESIGN section 10): "
              "mixed-case spellings of STRT/STOP/STEP/NULL, duplicated NULL, integers beyond 2**53 and beyond int64, one-sided brackets in units, '..' inside values, reads into a used LASFile.")
PROP.rule += ' Round 8: numeral mnemonics (0, 1, -1, NAN), NaN/inf-looking text values.'
