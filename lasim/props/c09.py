"""C09 - reading is invariant under presentation-only changes of the text.

The presentation changes are treated as faults injected into the stored bytes: blank and '#' lines at seeded sites of
header and data sections, re-padding of fields and lines with blanks/tabs, LF <-> CRLF, dropped final newline, re-wrapping
of a WRAP=YES data section at arbitrary token boundaries, re-delimiting with the declared delimiter (SPACE, TAB, COMMA,
with or without padding blanks).  A run applies a composition of them and compares the read of the transformed text
with the read of the base text, both delivered through simulated channels."""
import copy
import random

from .. import canon as C
from .. import docmodel
from ..channels import draw_read_channel, read_via
from ..core import Prop, Result
from ..simfs import SimFS, Policy
from .c19 import corpus_files, corpus_text

NOISE = ["", "   ", "\t", "# comment", "#", "  # indented comment", "#~A not a title", "# 1 2 3", "#---- remark ----", "# 2018-05-22 logged", "#-"]
PADS = [0, 0, 1, 2, 5]


def split_sections(lines):
    """-> list of (title_index, kind) ; kind = first letter upper or '3' for LAS3 data-like sections."""
    out = []
    for i, ln in enumerate(lines):
        s = ln.strip()
        if s.startswith("~"):
            out.append((i, s[1:2].upper(), s))
    return out


def sec_of(lines, i):
    for j in range(i, -1, -1):
        s = lines[j].strip()
        if s.startswith("~"):
            return s[1:2].upper()
    return None


def render_generated(doc, lay, rnd):
    """Render an abstract document with the layout `lay` (presentation only)."""
    vers = doc.get("vers", 2.0)
    lines = []
    dlm = lay.get("dlm")
    for sec in doc["sections"]:
        title = sec["title"]
        lines.append(" " * lay.get("title_lead", 0) + title + " " * lay.get("title_trail", 0))
        k = sec["kind"]
        if k in ("V", "W", "C", "P", "X"):
            items = [list(it) for it in sec["items"]]
            if k == "V" and dlm is not None:
                items = [it for it in items if it[0] != "DLM"] + [["DLM", "", dlm, "DELIMITING CHARACTER"]]
            for it in items:
                if lay.get("repad"):
                    pads = (rnd.choice(PADS), rnd.choice([1, 1, 2, 6]), rnd.choice(PADS), rnd.choice(PADS))
                    tab = rnd.random() < 0.3
                else:
                    pads, tab = (0, 3, 1, 1), False
                if str(it[1]).startswith("."):
                    pads = (max(1, pads[0]),) + tuple(pads[1:])      # a conformant file keeps 'DEPT' and '.1IN' apart
                ln = docmodel.render_items([it], k, vers, [pads])[0]
                if tab:
                    ln = ln.replace("   ", "\t", 1)
                if lay.get("repad") and pads[0] >= 1 and it[0] and rnd.random() < 0.25 and ln.startswith(it[0] + " " * pads[0] + "."):
                    ln = it[0] + "\t" + ln[len(it[0]) + pads[0]:]      # a tab, not blanks, between the mnemonic and the period
                if lay.get("repad"):
                    ln = rnd.choice(["", "", " ", "\t", "    "]) + ln + rnd.choice(["", "", "  ", "\t"])
                lines.append(ln)
        elif k == "O":
            lines += list(sec["text"])
        elif k == "A":
            sepname = dlm or "SPACE"
            rows = sec["rows"]

            def sep():
                if sepname == "COMMA":
                    return rnd.choice([",", ", ", " , ", " ,", ",  "]) if lay.get("redelim_pad") else ","
                if sepname == "TAB":
                    return rnd.choice(["\t", "\t\t", " \t", "\t "]) if lay.get("redelim_pad") else "\t"
                return rnd.choice([" ", "  ", "\t", "     ", " \t "]) if lay.get("repad") else " "

            def join(tokens):
                out = ""
                for t_i, t in enumerate(tokens):
                    out += (sep() if t_i else "") + t
                lead = rnd.choice(["", " ", "   ", "\t"]) if lay.get("repad") else " "
                trail = rnd.choice(["", "", "  ", "\t"]) if lay.get("repad") else ""
                return lead + out + trail
            if doc.get("wrap"):
                mode = lay.get("rewrap")
                if mode is None:
                    for r in rows:
                        lines.append(join(r[:1]))
                        rest = r[1:]
                        for i in range(0, len(rest), 5):
                            lines.append(join(rest[i:i + 5]))
                elif mode in ("one", "all", "rand"):
                    for r in rows:
                        i = 0
                        while i < len(r):
                            n = len(r) if mode == "all" else (1 if mode == "one" else rnd.randint(1, max(1, len(r))))
                            lines.append(join(r[i:i + n]))
                            i += n
                else:
                    # the token stream of the whole section is cut without regard to depth steps: k values per line
                    # (k may exceed the number of curves), everything on one line, or random cuts
                    flat = [t for r in rows for t in r]
                    i = 0
                    while i < len(flat):
                        if mode == "stream_all":
                            n = len(flat)
                        elif mode == "stream_rand":
                            n = rnd.randint(1, max(1, 2 * len(rows[0])))
                        else:
                            n = int(mode.split(":")[1])
                        lines.append(join(flat[i:i + n]))
                        i += n
            else:
                for r in rows:
                    lines.append(join(r))
    # noise lines (never inside ~Other, never before the first title)
    if lay.get("noise"):
        secs = split_sections(lines)
        legal = []
        cur = None
        for i, ln in enumerate(lines):
            s = ln.strip()
            if s.startswith("~"):
                cur = s[1:2].upper()
            if cur is not None and cur != "O":
                legal.append(i)
        # a line inserted AFTER index i stays in i's section; after the last line of ~Other's predecessor is fine too
        ins = []
        legal_data = [i for i in legal if sec_of(lines, i) == "A"]
        for n in lay["noise"]:
            pos, txt = n[0], n[1]
            pool = legal_data if (len(n) > 2 and n[2] == "data" and legal_data) else legal
            if pool:
                ins.append((pool[pos % len(pool)], txt))
        for i, txt in sorted(ins, key=lambda x: -x[0]):
            nxt = lines[i + 1].strip() if i + 1 < len(lines) else "~"
            lines.insert(i + 1, txt)
    return lines


def transform_text(lines, tr, rnd, wrapped, ncurves):
    """Text-level, always-safe presentation changes for corpus files."""
    out = list(lines)
    secs = split_sections(out)
    if not secs:
        return out
    kinds = {}
    cur = None
    for i, ln in enumerate(out):
        s = ln.strip()
        if s.startswith("~"):
            cur = s[1:2].upper() if "_" not in s else "3"
        kinds[i] = cur
    dlm_special = any(ln.strip().upper().startswith("DLM") and ("TAB" in ln.upper() or "COMMA" in ln.upper()) for ln in out[:20])
    if tr.get("resep") and not wrapped and not dlm_special:
        for i, ln in enumerate(out):
            if kinds[i] == "A" and not ln.strip().startswith(("~", "#")) and ln.strip() and '"' not in ln and "'" not in ln:
                toks = ln.split()
                out[i] = rnd.choice(["", " ", "   ", "\t"]) + rnd.choice([" ", "  ", "\t", "    "]).join(toks) + rnd.choice(["", "  "])
    if tr.get("rewrap") and wrapped and ncurves and not dlm_special:
        new, buf, i0 = [], [], None
        for i, ln in enumerate(out):
            if kinds[i] == "A" and not ln.strip().startswith(("~", "#")) and ln.strip():
                buf += ln.split()
                if i0 is None:
                    i0 = len(new)
            else:
                new.append(ln)
        if i0 is not None and len(buf) % ncurves == 0 and '"' not in " ".join(buf):
            rows = [buf[k:k + ncurves] for k in range(0, len(buf), ncurves)]
            data = []
            if str(tr["rewrap"]).startswith("stream"):
                i = 0
                while i < len(buf):
                    n = len(buf) if tr["rewrap"] == "stream_all" else (rnd.randint(1, 2 * ncurves) if tr["rewrap"] == "stream_rand" else 2 * ncurves)
                    data.append(" " + " ".join(buf[i:i + n]))
                    i += n
                rows = []
            for r in rows:
                i = 0
                while i < len(r):
                    n = len(r) if tr["rewrap"] == "all" else (1 if tr["rewrap"] == "one" else rnd.randint(1, len(r)))
                    data.append(" " + " ".join(r[i:i + n]))
                    i += n
            out = new[:i0] + data + new[i0:]
            kinds = None
    if tr.get("edges"):
        cur = None
        for i, ln in enumerate(out):
            s = ln.strip()
            if s.startswith("~"):
                cur = s[1:2].upper()
            if cur != "O" and s and rnd.random() < 0.3:
                out[i] = rnd.choice([" ", "   ", "\t"]) + ln + rnd.choice(["", "  ", "\t"])
    if tr.get("noise"):
        cur = None
        legal = []
        for i, ln in enumerate(out):
            s = ln.strip()
            if s.startswith("~"):
                cur = s[1:2].upper()
            if cur is not None and cur != "O" and "_" not in (s if s.startswith("~") else ""):
                legal.append(i)
        legal_data = [i for i in legal if sec_of(out, i) == "A"]
        ins = []
        for n in tr["noise"]:
            pool = legal_data if (len(n) > 2 and n[2] == "data" and legal_data) else legal
            if pool:
                ins.append((pool[n[0] % len(pool)], n[1]))
        for i, txt in sorted(ins, key=lambda x: -x[0]):
            out.insert(i + 1, txt)
    return out


def _isnum(c):
    try:
        float(c)
        return True
    except ValueError:
        return False


class C09(Prop):
    id = "C09"
    level = "exploration"
    rule = ("scenario = base (generated document in abstract form, optionally wrapped / text column / DLM SPACE, TAB or COMMA; "
            "or an example-corpus file) + a composition of presentation changes: blank/'#' lines at seeded sites of header "
            "and data sections (up to 25 in a row, not inside ~Other), re-padding of every field and line with blanks/tabs, "
            "padding around titles, LF/CRLF, final newline dropped, re-wrapping of WRAP=YES data (one value per line ... all "
            "on one line ... random cuts), re-delimiting with/without padding; base and transformed text are both read "
            "through drawn channels/engines.  Non-trivial = at least two kinds of change applied; distinct = distinct "
            "event-log digests.")
    assumptions = [
        "generated bases are re-rendered from their abstract form, so re-padding touches only blanks between conformant "
        "fields; for corpus files only always-safe text-level changes are applied (line edges, data separators, noise lines, "
        "re-wrap, newline style)",
        "comment lines use the default comment character '#'; nothing is inserted inside ~Other (its lines are content) or "
        "before the first section title",
        "for DLM COMMA/TAB documents the declared delimiter is used between all values of a line",
    ]
    def pred_textpad(sc, v, params):
        b = sc["base"]
        if b["kind"] != "doc" or b.get("dlm") not in ("TAB", "COMMA") or not sc["tr"].get("redelim_pad"):
            return False
        for sec in b["doc"]["sections"]:
            if sec["kind"] == "A":
                return any(not _isnum(c) for r in sec["rows"] for c in r)
        return False

    def pred_wrapped_hyphen(sc, v, params):
        """known finding (same defect as F-C12-5): a wrapped file with hyphenated text cells is read correctly only while every
        physical data line holds a hyphen; re-wrapping changes which lines do"""
        import re
        b = sc["base"]
        if b["kind"] != "doc" or not b["doc"].get("wrap") or not sc["tr"].get("rewrap"):
            return False
        for sec in b["doc"]["sections"]:
            if sec["kind"] == "A":
                return any((not _isnum(c)) and re.search(r"\d-\d", c) for r in sec["rows"] for c in r)
        return False

    predicates = {"delimited_text_cell_padding": pred_textpad, "rewrapped_hyphenated_text": pred_wrapped_hyphen}
    quick = {"runs": 12000, "wall": 60}
    thorough = {"runs": 200000, "wall": 900}

    def gen(self, st, tier, index):
        g = st.gen
        files = corpus_files()
        sc = {"seed": g.randrange(1 << 30), "engine": g.choice(["numpy", "normal"]), "policy": Policy.draw(st.io).to_json(),
              "rkw": g.choice([{}, {}, {"mnemonic_case": "preserve"}, {"null_policy": "none"}])}
        noise = []
        if g.random() < 0.7:
            n = g.choice([1, 1, 2, 3, 5]) if g.random() < 0.85 else g.randint(21, 25)
            pos0 = g.randrange(10000)
            same_site = n >= 21
            where = g.choice(["any", "data", "data"])
            for k in range(n):
                noise.append([pos0 if same_site else g.randrange(10000), g.choice(NOISE), where])
        if index % 3 == 0:
            sc["base"] = {"kind": "corpus", "file": files[(index // 3) % len(files)]}
            sc["tr"] = {"noise": noise, "edges": g.random() < 0.5, "resep": g.random() < 0.5,
                        "rewrap": g.choice([None, "one", "all", "rand", "stream_all", "stream_rand", "stream:2n"])}
        else:
            wrap = g.random() < 0.3
            textcol = g.random() < 0.15
            nc = g.randint(2 if wrap else 1, 8)

            tstyle = g.choice(["T%d", "T%d", "2018-05-%02d", "7-%d"])

            def cell(i, j, tstyle=tstyle):
                if textcol and j == nc - 1 and nc > 1:
                    return tstyle % (i + 1)
                return "%.3f" % (i * 0.5 if j == 0 else (i * 10 + j) * 1.25 * (-1 if (i + j) % 3 == 0 else 1))
            doc = docmodel.std_doc(g, ncurves=nc, nrows=g.choice([1, 1, 2, 3, 5, 22, 25]) if g.random() < 0.8 else g.randint(1, 30),
                                   wrap=wrap, custom=g.choice([0, 0, 1, 2]), cell=cell)
            dlm = g.choice([None, None, "SPACE", "TAB", "COMMA"])
            if g.random() < 0.12:
                # depth in tenths of an inch: the unit starts with a period
                for sec in doc["sections"]:
                    for it in sec.get("items", []):
                        if (sec["kind"] == "C" and it[0] == "DEPT") or (sec["kind"] == "W" and it[0] in ("STRT", "STOP", "STEP")):
                            it[1] = ".1IN"
            if g.random() < 0.15:
                # a header section after the data section (its position in the file is found by tell/seek arithmetic)
                movable = [k for k, sec in enumerate(doc["sections"]) if sec["kind"] in ("P", "O", "X")]
                if movable:
                    doc["sections"].append(doc["sections"].pop(g.choice(movable)))
            sc["base"] = {"kind": "doc", "doc": doc, "dlm": dlm}
            sc["tr"] = {"noise": noise, "repad": g.random() < 0.6, "redelim_pad": g.random() < 0.5,
                        "rewrap": g.choice([None, "one", "all", "rand", "stream_all", "stream_rand", "stream:%d" % (2 * nc), "stream:%d" % (nc + 1),
                                            "stream:%d" % g.randint(1, 3 * nc)]) if wrap else None,
                        "title_lead": g.choice([0, 0, 0]), "title_trail": g.choice([0, 0, 3])}
        sc["eol"] = g.choice(["\n", "\r\n"])
        sc["final_newline"] = g.random() < 0.6
        sc["channel"] = draw_read_channel(g, ascii_only=True, allow_cr=False)
        sc["base_channel"] = draw_read_channel(g, ascii_only=True, allow_cr=False)
        return sc

    def texts(self, sc):
        rnd = random.Random(sc["seed"])
        b = sc["base"]
        tr = sc["tr"]
        if b["kind"] == "doc":
            base_lines = render_generated(b["doc"], {"dlm": b["dlm"]}, rnd)
            lay = dict(tr)
            lay["dlm"] = b["dlm"]
            new_lines = render_generated(b["doc"], lay, rnd)
        else:
            t = corpus_text(b["file"])
            if t is None:
                return None, None
            base_lines = t.split("\n")
            up = t.upper()
            wrapped = any(ln.strip().upper().startswith("WRAP") and "YES" in ln.upper().split(":")[0] for ln in base_lines[:15])
            ncurves = 0
            cur = None
            for ln in base_lines:
                s = ln.strip()
                if s.startswith("~"):
                    cur = s[1:2].upper()
                elif cur == "C" and s and not s.startswith("#"):
                    ncurves += 1
            new_lines = transform_text(base_lines, tr, rnd, wrapped, ncurves)
        base_text = "\n".join(base_lines)
        if not base_text.endswith("\n"):
            base_text += "\n"
        new_text = "\n".join(new_lines)
        new_text = new_text.rstrip("\n") + ("\n" if sc["final_newline"] else "")
        return base_text, new_text

    def run(self, sc):
        res = Result()
        base_text, new_text = self.texts(sc)
        if base_text is None:
            res.skipped = "corpus file not UTF-8 text"
            return res
        kw = dict(sc["rkw"])
        kw["engine"] = sc["engine"]
        if not (base_text + new_text).isascii():
            # non-ASCII corpus text: file channels get an explicit Unicode codec (nothing else is claimed by any property)
            for key in ("channel", "base_channel"):
                if sc[key]["channel"] in ("path", "Path", "stream") and not (sc[key]["explicit"] and sc[key]["codec"] in ("utf-8", "utf-16", "utf-8-sig")):
                    sc[key] = dict(sc[key], codec="utf-8", explicit=True)
        fs = SimFS(policy=Policy.from_json(sc["policy"]))
        with fs:
            try:
                base = read_via(fs, base_text, sc["base_channel"], kw, tag="c09")
            except Exception as e:
                res.skipped = "base unreadable"
                res.count("base-unreadable:" + type(e).__name__)
                return res
            cfg = dict(sc["channel"])
            if cfg["channel"] in ("path", "Path", "stream", "stringio", "string"):
                cfg["newline"] = sc["eol"]
            try:
                new = read_via(fs, new_text, cfg, kw, tag="c09")
            except UnicodeEncodeError:
                res.skipped = "text not encodable in the drawn codec"
                return res
            except Exception as e:
                res.violate("C09.unreadable", "the transformed text could not be read although the base can: %s: %s | changes=%s" % (
                    type(e).__name__, str(e).strip().splitlines()[-1][:200] if str(e).strip() else "", self.describe(sc)))
                res.events = fs.seq
                return res
        res.events = fs.seq
        res.merge_counts(fs.counts)
        a = C.canon(base, strict=True, with_session=True, data=True, index_unit=True)
        b = C.canon(new, strict=True, with_session=True, data=True, index_unit=True)
        if sc["base"]["kind"] == "doc" and sc["base"]["dlm"] is None:
            pass
        kinds = [k for k, v in sc["tr"].items() if v and k not in ("title_lead",)]
        res.nontrivial = len(kinds) + (1 if sc["eol"] != "\n" else 0) + (0 if sc["final_newline"] else 1) >= 2
        for k in kinds:
            res.count("change:" + k)
        res.log.append([sc["base"].get("file") or "doc", self.describe(sc), sc["engine"], cfg["channel"], C.sha_text(new_text)])
        if a != b:
            res.violate("C09.differs", "reading changed under presentation-only changes (%s; engine=%s): %s" % (
                self.describe(sc), sc["engine"], "; ".join(C.diff(a, b))))
        return res

    @staticmethod
    def describe(sc):
        tr = sc["tr"]
        parts = ["%s=%s" % (k, (len(v) if isinstance(v, list) else v)) for k, v in sorted(tr.items()) if v]
        if sc["eol"] != "\n":
            parts.append("CRLF")
        if not sc["final_newline"]:
            parts.append("no-final-newline")
        if sc["base"]["kind"] == "doc":
            parts.append("dlm=%s wrap=%s" % (sc["base"]["dlm"], sc["base"]["doc"].get("wrap")))
        else:
            parts.append(sc["base"]["file"])
        return ", ".join(parts)

    def shrink_lists(self, sc):
        return [("tr", "noise")]

    def simplify(self, sc):
        for k in ("repad", "redelim_pad", "edges", "resep", "rewrap", "title_trail"):
            if sc["tr"].get(k):
                d = copy.deepcopy(sc)
                d["tr"][k] = None if k == "rewrap" else (0 if k == "title_trail" else False)
                yield d
        if sc["eol"] != "\n":
            d = copy.deepcopy(sc)
            d["eol"] = "\n"
            yield d
        if not sc["final_newline"]:
            d = copy.deepcopy(sc)
            d["final_newline"] = True
            yield d
        for key in ("channel", "base_channel"):
            if sc[key]["channel"] != "stringio":
                d = copy.deepcopy(sc)
                d[key] = {"channel": "stringio", "codec": "utf-8", "explicit": False, "newline": "\n"}
                yield d
        if sc["policy"] != Policy().to_json():
            d = copy.deepcopy(sc)
            d["policy"] = Policy().to_json()
            yield d
        if sc["rkw"]:
            d = copy.deepcopy(sc)
            d["rkw"] = {}
            yield d
        if sc["base"]["kind"] == "doc":
            doc = sc["base"]["doc"]
            for si, sec in enumerate(doc["sections"]):
                if sec["kind"] == "A" and len(sec["rows"]) > 1:
                    d = copy.deepcopy(sc)
                    d["base"]["doc"]["sections"][si]["rows"] = sec["rows"][:max(1, len(sec["rows"]) // 2)]
                    yield d
                if sec["kind"] in ("P", "X", "O") :
                    d = copy.deepcopy(sc)
                    del d["base"]["doc"]["sections"][si]
                    yield d
                    break


PROP = C09()

PROP.rule += (" Strata added while closing seeded changes (DESIGN section 10): "
              'stream re-wrap, header section behind ~A, hyphenated text/date columns, comment lines holding hyphens.')
