"""C11 - lasio's own output is a fixed point of read -> write.

A single simulated client runs a load/save history against the simulated file system:
x -> read -> write f1 -> read r1 -> write f2 -> read r2 -> ... for k = 2..5 cycles with one writer option set, the
output and input channels, codecs, newline styles and delivery policies varying per cycle.  For every cycle i >= 1,
canon(r_{i+1}) must equal canon(r_i)."""
import copy

import numpy as np

from .. import canon as C
from .. import docmodel
from ..channels import read_via, write_via
from ..core import Prop, Result
from ..simfs import SimFS, Policy
from .c19 import corpus_files, CORPUS_DIR

WKWS = [{}, {}, {"version": 1.2}, {"version": 2.0}, {"wrap": True}, {"wrap": False}, {"version": 1.2, "wrap": True},
        {"fmt": "%.3f"}, {"fmt": "%.8f"}, {"fmt": "%.6e"}, {"mnemonics_header": True}, {"data_section_header": "~A"},
        {"len_numeric_field": -1}, {"spacer": "  ", "lhs_spacer": ""}, {"data_width": 40, "wrap": True}, {"header_width": 25},
        {"column_fmt": {"0": "%.2f"}}, {"spacer": ","}, {"spacer": ", "}, {"spacer": "\t"}]
ODD_UNITS = [".1IN", "0.1IN", "M", "", "US/F", "(m)", "[ft]", "m.", "K/M3", "DEG.C", "in...", "(ohm..)", "m..", "ft....", "[m.]."]
RKWS = [{}, {}, {"engine": "normal"}, {"mnemonic_case": "preserve"}, {"mnemonic_case": "lower"}, {"null_policy": "none"},
        {"ignore_header_errors": True}, {"mnemonic_case": "lower", "engine": "normal"}, {"index_unit": "m"}, {"dtypes": "auto"}]


def corpus_bytes(name):
    import os
    with open(os.path.join(CORPUS_DIR, name), "rb") as fh:
        return fh.read()


def mutate_lines(g, lines):
    """Textual mutations of header lines: duplicated / blank mnemonics, odd units, empty values, long fields."""
    out = list(lines)
    hdr = []
    sec = None
    for i, ln in enumerate(out):
        s = ln.strip()
        if s.startswith("~"):
            sec = s[1:2].upper()
            continue
        if sec in ("W", "C", "P") and "." in s and not s.startswith("#"):
            hdr.append((i, sec))
    if not hdr:
        return out
    for _ in range(g.randint(1, 3)):
        i, sec = g.choice(hdr)
        ln = out[i]
        kind = g.choice(["dup", "blank", "unit", "empty", "long", "bare", "unit"])
        name, _, rest = ln.partition(".")
        if kind == "dup":
            out.insert(i + 1, ln)
            hdr = [(j + 1 if j > i else j, s) for j, s in hdr]
        elif kind == "blank" and "." not in rest and "," not in rest and not any(ch.isdigit() for ch in rest.split(":")[0]):
            # blank mnemonics only on lines that cannot acquire a further period when written back (no numbers: 5 -> 5.0)
            out[i] = " ." + rest
        elif kind == "unit":
            u = g.choice(ODD_UNITS)
            if sec == "C" and (".." in u or u.endswith(".")) and u != "m.":
                u = g.choice(ODD_UNITS[:10])          # in ~Curves '..' selects the mnemonic-with-dots reading (C04's special form)
            if u.startswith(".") and not name.endswith(" "):
                name = name + " "                     # a conformant file keeps 'MNEM' and '.1IN' apart
            body = rest.split(None, 1)
            tail = body[1] if len(body) > 1 and not rest[:1].isspace() else rest.lstrip()
            out[i] = "%s.%s   %s" % (name, u, tail)
        elif kind == "empty" and ":" in rest:
            out[i] = "%s.%s   : %s" % (name, rest.split()[0] if rest[:1].strip() else "", rest.rsplit(":", 1)[1].strip())
        elif kind == "bare" and ":" in rest:
            out[i] = "%s.   : %s" % (name, rest.rsplit(":", 1)[1].strip())         # neither unit nor value
        elif kind == "long" and ":" in rest:
            out[i] = ln.rstrip() + " " + "long " * g.randint(5, 30)
    return out


def null_unusable(lines):
    """The ~Well NULL item has an empty or non-numeric value (as lasio parses the line: the field before the last colon)."""
    import re
    for ln in lines:
        m = re.match(r"^\s*NULL\s*\.(\S*)\s*(.*):", ln, re.I)
        if m:
            v = m.group(2).strip().replace(",", ".")
            try:
                float(v)
            except ValueError:
                return True
    return False


def stop_differs(las):
    try:
        if las.index_initial is None or len(las.index_initial) == 0:
            return True
        return bool(las.index_initial[-1] != las.well.STOP.value)
    except Exception:
        return True


def mask_sss(c):
    c = copy.deepcopy(c)
    for name, sec in c["sections"]:
        if name == "Well" and sec[0] == "items":
            for it in sec[1]:
                if str(it["orig"]).upper() in ("STRT", "STOP", "STEP"):
                    it["value"] = "<refreshed>"
    return c


class C11(Prop):
    id = "C11"
    level = "exploration"
    rule = ("scenario = input (example-corpus file as stored bytes, or generated document, optionally with textual header "
            "mutations: duplicated/blank mnemonics, odd units such as .1IN, emptied values, long fields) x one writer "
            "option set x read options x k = 2..5 load/save cycles whose output channel (path/stream/StringIO), codec, "
            "input channel, newline style and delivery policy vary per cycle.  Non-trivial = at least two full cycles "
            "completed; distinct = distinct event-log digests.")
    assumptions = [
        "inputs lasio cannot read, or cannot write the first time, are skipped and counted (by definition of the statement)",
        "comparison is canon() with numeric values compared numerically: sections in order, per item session and original "
        "mnemonic, unit, value, description; curve arrays; index_unit",
        "the same writer options and the same read options are used in every cycle",
    ]
    def pred_las3(sc, v, params):
        src = sc["src"]
        if src["kind"] == "corpus":
            return src["file"].startswith("3.0" + __import__("os").sep) or src["file"].startswith("3.0/")
        return any(ln.strip().upper().startswith("VERS") and "3.0" in ln for ln in src.get("lines", []))

    def pred_quoted(sc, v, params):
        src = sc["src"]
        if src["kind"] == "corpus":
            try:
                t = corpus_bytes(src["file"]).decode("latin-1")
            except Exception:
                return False
            lines = t.splitlines()
        else:
            lines = src.get("lines", [])
        in_data = False
        for ln in lines:
            if ln.strip().startswith("~"):
                in_data = ln.strip()[:2].upper() == "~A"
            elif in_data and ('"' in ln or "'" in ln):
                return True
        return False

    def pred_empty_null(sc, v, params):
        import random
        import re
        src = sc["src"]
        if src["kind"] == "corpus":
            try:
                lines = corpus_bytes(src["file"]).decode("latin-1").replace("\r\n", "\n").split("\n")
            except Exception:
                return False
        else:
            lines = list(src.get("lines", []))
        if src.get("mutate") is not None:
            lines = mutate_lines(random.Random(src["mutate"]), lines)
        return null_unusable(lines)

    def pred_index_unit_periods(sc, v, params):
        """known finding: STRT/STOP/STEP carry a unit with '..' or a trailing period; write() copies it to the index curve's
        ~Curves line, where the reader's double-period rule takes it for part of the mnemonic"""
        import random
        src = sc["src"]
        if src["kind"] == "corpus":
            try:
                lines = corpus_bytes(src["file"]).decode("latin-1").replace("\r\n", "\n").split("\n")
            except Exception:
                return False
        else:
            lines = list(src.get("lines", []))
        if src.get("mutate") is not None:
            lines = mutate_lines(random.Random(src["mutate"]), lines)
        sec = None
        for ln in lines:
            t = ln.strip()
            if t.startswith("~"):
                sec = t[1:2].upper()
            elif sec == "W" and "." in t and t.split(".", 1)[0].strip().upper() in ("STRT", "STOP", "STEP"):
                rest = t.split(".", 1)[1]
                unit = rest.split(None, 1)[0] if rest[:1].strip() else ""
                unit = unit.split(":")[0]
                core = unit.strip("()[]")
                if ".." in unit or core.endswith("."):
                    return True
        return False

    def pred_wrapped_spacer(sc, v, params):
        """known finding (same defect as F-C01-2): wrapped output with a comma or tab spacer is not re-readable"""
        import random
        wkw = sc.get("wkw") or {}
        if wkw.get("spacer", " ").strip(" ") not in (",", "\t"):
            return False
        if wkw.get("wrap") is True:
            return True
        if wkw.get("wrap") is False:
            return False
        src = sc["src"]
        if src["kind"] == "corpus":
            try:
                lines = corpus_bytes(src["file"]).decode("latin-1").replace("\r\n", "\n").split("\n")
            except Exception:
                return False
        else:
            lines = list(src.get("lines", []))
        return any(ln.strip().upper().startswith("WRAP") and "YES" in ln.upper().split(":")[0] for ln in lines[:40])

    def pred_spacer_without_dlm(sc, v, params):
        """known finding: write(spacer=',' or tab) of an object whose ~Version holds no DLM item declares no delimiter"""
        import random
        wkw = sc.get("wkw") or {}
        if wkw.get("spacer", " ").strip(" ") not in (",", "\t"):
            return False
        src = sc["src"]
        if src["kind"] == "corpus":
            try:
                lines = corpus_bytes(src["file"]).decode("latin-1").replace("\r\n", "\n").split("\n")
            except Exception:
                return False
        else:
            lines = list(src.get("lines", []))
        if src.get("mutate") is not None:
            lines = mutate_lines(random.Random(src["mutate"]), lines)
        sec = None
        for ln in lines:
            t = ln.strip()
            if t.startswith("~"):
                sec = t[1:2].upper()
            elif sec == "V" and t.split(".", 1)[0].strip().upper() == "DLM":
                return False
        return True

    def pred_blank_text_cells(sc, v, params):
        """known finding (F-C11-3 for delimited inputs): text cells holding blanks are written unquoted with a blank spacer"""
        wkw = sc.get("wkw") or {}
        if wkw.get("spacer", " ").strip(" ") in (",", "\t"):
            return False
        lines = sc["src"].get("lines") or []
        dlm = None
        in_data = False
        for ln in lines:
            t = ln.strip()
            if t.startswith("~"):
                in_data = t[:2].upper() == "~A"
            elif not in_data and t.split(".", 1)[0].strip().upper() == "DLM":
                dlm = "," if "COMMA" in t.upper() else ("\t" if "TAB" in t.upper() else None)
            elif in_data and dlm and any(" " in c.strip() for c in t.split(dlm)):
                return True
        return False

    def pred_delimited_text_padding(sc, v, params):
        """known finding (F-C09-2 seen over cycles): with a comma/tab spacer the padding written around a text cell is read
        back as part of the cell, so the cell grows by the padding on every cycle"""
        wkw = sc.get("wkw") or {}
        if wkw.get("spacer", " ").strip(" ") not in (",", "\t"):
            return False
        src = sc["src"]
        if src["kind"] == "corpus":
            try:
                lines = corpus_bytes(src["file"]).decode("latin-1").replace("\r\n", "\n").split("\n")
            except Exception:
                return False
        else:
            lines = src.get("lines") or []
        in_data = False
        for ln in lines:
            t = ln.strip()
            if t.startswith("~"):
                in_data = t[:2].upper() == "~A" or "_DATA" in t.upper()
            elif in_data and not t.startswith("#") and any(ch.isalpha() for ch in t.replace("e", "").replace("E", "").replace("nan", "").replace("NaN", "")):
                return True
        return False

    predicates = {"wrapped_nonblank_spacer": pred_wrapped_spacer, "delimited_text_cells_with_blanks": pred_blank_text_cells,
                  "delimited_text_cell_padding": pred_delimited_text_padding, "nonblank_spacer_without_dlm_item": pred_spacer_without_dlm,
                  "las3_input": pred_las3, "quoted_text_cells": pred_quoted, "empty_null_value": pred_empty_null,
                  "index_unit_with_trailing_periods": pred_index_unit_periods}
    quick = {"runs": 2500, "wall": 60}
    thorough = {"runs": 100000, "wall": 900}

    def gen(self, st, tier, index):
        g = st.gen
        files = corpus_files()
        if index < len(files) and g.random() < 0.999:
            src = {"kind": "corpus", "file": files[index], "mutate": None}
        elif g.random() < 0.45:
            src = {"kind": "corpus", "file": g.choice(files), "mutate": g.randrange(1 << 30) if g.random() < 0.6 else None}
        else:
            delimited = g.random() < 0.1
            if delimited:
                # DLM COMMA / TAB input with a text column whose cells hold blanks (legal there without quotes)
                nct = g.randint(2, 4)
                jt = g.randrange(1, nct)
                words = ["fine sand", "coarse grained sand", "shale", "lime stone", "n a"]

                def cell(i, j, jt=jt, words=words):
                    return words[i % len(words)] if j == jt else "%.4f" % (i * 0.5 if j == 0 else (i * 10 + j) * 1.25)
                doc = docmodel.std_doc(g, custom=0, ncurves=nct, nrows=g.randint(2, 5), cell=cell)
                dl = g.choice(["COMMA", "COMMA", "TAB"])
                doc["sections"][0]["items"].append(["DLM", "", dl, "DELIMITING CHARACTER"])
                doc["sep"] = g.choice([",", ", "]) if dl == "COMMA" else "\t"
            else:
                doc = docmodel.std_doc(g, custom=g.choice([0, 0, 1]), wrap=g.random() < 0.2, nonascii=g.random() < 0.2,
                                       ncurves=g.choice([None, None, None, None, 7, 14, 21, 24, 28, 35, 36]),
                                       vers=1.0 if g.random() < 0.06 else None)      # LAS 1.0 shares the 1.2 ~Well layout
            if g.random() < 0.3:
                for sec in doc["sections"]:
                    if sec["kind"] == "C" and len(sec["items"]) > 1:
                        sec["items"][g.randrange(len(sec["items"]))][1] = g.choice(ODD_UNITS[:2] + ["M", "US/F"])
            if g.random() < 0.45:
                # header values at the edges of float formatting, each in turn the widest field of its section
                xv = g.choice(["0.00002", "2e-05", "1.5e+17", "-3.25E-7", "123456789012345678", "0.000000001", "1e16", "6.02E23"])
                for sec in doc["sections"]:
                    if sec["kind"] == g.choice(["P", "W", "P"]):
                        if g.random() < 0.6:
                            for it in sec["items"]:
                                if it[0] not in ("STRT", "STOP", "STEP", "NULL"):
                                    it[2], it[3] = g.choice(["", "x", "12"]), g.choice(["", "d"])
                        sec["items"].insert(g.randint(0, len(sec["items"])), ["CMPR", g.choice(["1/KPA", "", "M"]), xv, g.choice(["COMPRESSIBILITY", "", "c"])])
            src = {"kind": "lines", "lines": docmodel.render_doc(doc), "mutate": g.randrange(1 << 30) if g.random() < 0.5 else None}
        k = g.randint(2, 5 if tier == "thorough" else 3)
        cycles = []
        for _ in range(k):
            codec = g.choice(["utf-8", "utf-8", "utf-16", "utf-8-sig"])
            out = g.choice(["path", "stream", "stringio"])
            ch = g.choice(["path", "Path", "stream", "stringio", "string"])
            cycles.append({"out": out, "codec": codec if out == "stream" else "utf-8",
                           "in": {"channel": ch, "codec": codec, "explicit": True, "newline": g.choice(["\n", "\n", "\r\n"])}})
        wkw = dict(g.choice(WKWS))
        if src["kind"] == "lines" and any(ln.startswith("DLM") and ("COMMA" in ln or "TAB" in ln) for ln in src["lines"][:8]) and g.random() < 0.5:
            wkw = {"spacer": g.choice([",", ", ", "\t"])}         # delimited in, delimited out
        return {"src": src, "wkw": wkw, "rkw": dict(g.choice(RKWS)), "cycles": cycles,
                "policy": Policy.draw(st.io).to_json()}

    def run(self, sc):
        import lasio
        import random
        res = Result()
        src = sc["src"]
        pol = Policy.from_json(sc["policy"])
        if src["kind"] == "corpus" and len(corpus_bytes(src["file"])) > 6000 and (pol.buffer < 64 or pol.chunk < 32 or 0 < pol.max_read < 64):
            # big example files: byte-at-a-time delivery costs minutes and adds nothing; keep short reads but in larger pieces
            pol = Policy(kind=pol.kind, max_read=max(pol.max_read, 200), max_write=0 if pol.max_write == 0 else max(pol.max_write, 64),
                         buffer=max(pol.buffer, 128), chunk=max(pol.chunk, 64), io_seed=pol.io_seed)
        fs = SimFS(policy=pol)
        kw = copy.deepcopy(sc["wkw"])
        if "column_fmt" in kw:
            kw["column_fmt"] = {int(a): b for a, b in kw["column_fmt"].items()}
        rkw = dict(sc["rkw"])
        with fs:
            # ---- cycle 0: the input itself -------------------------------------------------------------------
            try:
                if src["kind"] == "corpus" and src["mutate"] is None:
                    fs.store("/simfs/c11/in.las", corpus_bytes(src["file"]))
                    las = lasio.read("/simfs/c11/in.las", **rkw)
                else:
                    if src["kind"] == "corpus":
                        try:
                            lines = corpus_bytes(src["file"]).decode("utf-8").replace("\r\n", "\n").split("\n")
                        except UnicodeDecodeError:
                            res.skipped = "corpus file not UTF-8 (not mutated)"
                            return res
                    else:
                        lines = list(src["lines"])
                    if src["mutate"] is not None:
                        lines = mutate_lines(random.Random(src["mutate"]), lines)
                    fs.store_text("/simfs/c11/in.las", "\n".join(lines) + "\n")
                    las = lasio.read("/simfs/c11/in.las", encoding="utf-8", **rkw)
            except Exception as e:
                res.skipped = "input unreadable"
                res.count("input-unreadable:" + type(e).__name__)
                return res
            prev = None
            prev_stop_differs = False
            done = 0
            for i, cy in enumerate(sc["cycles"]):
                try:
                    text = write_via(fs, las, cy["out"], kw, tag="c11", codec=cy["codec"])
                except UnicodeEncodeError:
                    res.skipped = "text not encodable in the drawn codec"
                    return res
                except Exception as e:
                    if i == 0:
                        res.skipped = "input unwritable"
                        res.count("input-unwritable:" + type(e).__name__)
                        return res
                    res.violate("C11.rewrite-raised", "cycle %d: lasio read its own output but cannot write it again: %s: %s" % (
                        i + 1, type(e).__name__, str(e)[:200]), step=i)
                    break
                try:
                    cfg = dict(cy["in"])
                    if cfg["channel"] == "stream" or cfg["channel"] in ("path", "Path"):
                        cfg["codec"] = cy["in"]["codec"]
                    las = read_via(fs, text, cfg, rkw, tag="c11")
                except UnicodeEncodeError:
                    res.skipped = "text not encodable in the drawn codec"
                    return res
                except Exception as e:
                    res.violate("C11.output-unreadable", "cycle %d: lasio cannot read the text it wrote (wkw=%r): %s: %s" % (
                        i + 1, kw, type(e).__name__, str(e).strip().splitlines()[-1][:200] if str(e).strip() else ""), step=i)
                    break
                cur = C.canon(las, strict=False, with_session=True, data=True, index_unit=True)
                res.log.append([i, cy["out"], cy["in"]["channel"], cy["in"]["codec"], C.sha_text(repr(cur))])
                if prev is not None:
                    done += 1
                    a, b = prev, cur
                    if prev_stop_differs:
                        # documented refresh: the text read in the previous cycle stated a STOP that disagrees with its
                        # data (e.g. the index was written with a lossy format), so this cycle's write refreshed
                        # STRT/STOP/STEP from the data; their values are left out of this one comparison
                        a, b = mask_sss(prev), mask_sss(cur)
                        res.count("cycles-with-documented-refresh")
                    if a != b:
                        prev, cur = a, b
                        res.violate("C11.drift", "cycle %d -> %d: the re-read content changed (wkw=%r rkw=%r): %s" % (
                            i, i + 1, kw, rkw, "; ".join(C.diff(prev, cur))), step=i)
                        break
                prev = C.canon(las, strict=False, with_session=True, data=True, index_unit=True)
                prev_stop_differs = stop_differs(las)
            res.nontrivial = done >= 1
            res.count("cycles-compared", done)
        res.events = fs.seq
        res.merge_counts(fs.counts)
        if src["kind"] == "corpus":
            res.count("corpus-base-runs")
        return res

    def shrink_lists(self, sc):
        paths = [("cycles",)]
        if sc["src"]["kind"] == "lines":
            paths.append(("src", "lines"))
        return paths

    def valid(self, sc):
        return len(sc["cycles"]) >= 2

    def simplify(self, sc):
        for k in list(sc["wkw"]):
            d = copy.deepcopy(sc)
            del d["wkw"][k]
            yield d
        if sc["rkw"]:
            d = copy.deepcopy(sc)
            d["rkw"] = {}
            yield d
        if sc["policy"] != Policy().to_json():
            d = copy.deepcopy(sc)
            d["policy"] = Policy().to_json()
            yield d
        if sc["src"].get("mutate") is not None:
            d = copy.deepcopy(sc)
            d["src"]["mutate"] = None
            yield d
        for i, cy in enumerate(sc["cycles"]):
            if cy["out"] != "stringio" or cy["in"]["channel"] != "stringio":
                d = copy.deepcopy(sc)
                d["cycles"][i] = {"out": "stringio", "codec": "utf-8", "in": {"channel": "stringio", "codec": "utf-8", "explicit": True, "newline": "\n"}}
                yield d


PROP = C11()

PROP.rule += (" Strata added while closing seeded changes (DESIGN section 10): "
              'bare header lines, multi-period units, curve counts 7..36, comma/tab spacers, DLM COMMA/TAB inputs with blank-holding text cells.')
PROP.rule += ' Round 8: LAS 1.0 inputs.'
