"""C10 - the result is independent of input channel and encoding; reads are pure.

Simulated clients (1-3) run histories of reads (through path / Path / caller stream / StringIO / string x codec x
newline x delivery policy), writes, LASFile() constructions and mutations of earlier results.  Every read result must
equal the reference result for its (document, options), obtained solo through a StringIO before the history starts:
that is channel/encoding independence, purity of repeated reads and non-interference in one oracle.  The clients are
interleaved by a seeded op-level scheduler, and (thorough tier, and a few quick runs) by the line-level baton
scheduler with real threads pre-empted at source lines of lasio."""
import copy
import io

import numpy as np

from .. import canon as C
from .. import docmodel
from ..channels import READ_CHANNELS, FILE_CHANNELS, read_via, write_via
from ..core import Prop, Result
from ..sched import LineScheduler
from ..simfs import SimFS, Policy

KWS = [{}, {"engine": "normal"}, {"mnemonic_case": "preserve"}, {"null_policy": "none"}, {"ignore_header_errors": True},
       {"mnemonic_case": "lower", "engine": "normal"}, {"null_policy": "common"}, {"read_policy": []}, {"ignore_data": True}, {"index_unit": "ft"}, {"index_unit": "m", "engine": "normal"},
       {"null_policy": "aggressive"}, {"accept_regexp_sub_recommendations": False}, {"use_normal_engine_for_wrapped": False}]
LATIN = ["Åsgard Ølje", "Société Générale", "Müller & Söhne", "Peña Nieto S.A.", "£ ± µ ¿ ß"]
WIDE = ["Нефть и газ", "井戸 検層", "𝒲ell 𝓛og 😀", "Ελληνικά", "Łódź Żółć", "para\u2028graph sep", "line\u2029sep"]
ODDSEP = ["next\x85line", "form\x0cfeed", "vt\x0btab", "fs\x1cgs\x1drs\x1eus", "nbsp\xa0here", "soft\xadhyphen"]   # str.splitlines() boundaries
# characters for which str.isprintable() / isspace() / category tests answer unusually (always between two letters of a field)
INVISIBLE = ["Soci\xe9t\xe9\xa0P\xe9troli\xe8re", "co\xadop\xe9rative", "zero\u200cwidth\u200djoiner", "thin\u2009space", "ideo\u3000space",
             "mark\u200eltr\u200frtl", "private\ue000use", "bom\ufeffinside", "comb\u0301ining",
             "cafe\u0301 decomposed", "10 k\u2126 ohm sign", "5 \u212b angstrom", "300 \u212a kelvin", "\ufb01ne ligature"]
MUTATIONS = ["well_value", "well_append", "well_delete", "version_value", "curve_inplace", "curve_append", "rename_item",
             "params_append", "other_text", "curve_delete"]


def make_doc(g, kind):
    """-> {"lines": [...], "wide": bool}"""
    if kind == "nonascii":
        wide = g.random() < 0.4
        pool = WIDE + INVISIBLE[2:] if wide else (LATIN + ODDSEP + INVISIBLE[:2] if g.random() < 0.5 else LATIN)
        doc = docmodel.std_doc(g, custom=g.choice([0, 1]))
        expect = []
        for sec in doc["sections"]:
            if sec["kind"] == "W":
                a, b, c = g.choice(pool), g.choice(pool), g.choice(pool)
                sec["items"].append(["COMP2", "", a, "company " + b])
                sec["items"].append(["LOC", "", c, "LOCATION"])
                expect += [["Well", "COMP2", "value", a], ["Well", "COMP2", "descr", "company " + b], ["Well", "LOC", "value", c]]
            if sec["kind"] == "O":
                sec["text"].append("free text " + g.choice(pool))
            if sec["kind"] == "P":
                a = g.choice(pool)
                sec["items"].append(["ENG", "", a, "ENGINEER"])
                expect.append(["Parameter", "ENG", "value", a])
        return {"lines": docmodel.render_doc(doc), "wide": wide, "expect": expect}
    if kind == "nosections":
        doc = docmodel.std_doc(g, with_p=False, with_o=False)
        drop = g.choice([["W"], ["V"], ["V", "W"], ["C"], []])
        doc["sections"] = [s for s in doc["sections"] if s["kind"] not in drop]
        return {"lines": docmodel.render_doc(doc), "wide": False}
    if kind == "hyphen":
        nr = g.randint(2, 5)

        def cell(i, j):
            return "2018-05-%02d" % (i + 1) if j == 1 else "%.2f" % (i * 0.5 if j == 0 else -(i * 10 + j) * 1.25)
        doc = docmodel.std_doc(g, ncurves=3, nrows=nr, cell=cell)
        return {"lines": docmodel.render_doc(doc), "wide": False}
    if kind == "runon":
        nr = g.randint(3, 6)
        doc = docmodel.std_doc(g, ncurves=3, nrows=nr)
        lines = docmodel.render_doc(doc)
        # replace the data rows: values run together on the minus sign in some rows, first row has no hyphen at all
        k = [i for i, ln in enumerate(lines) if ln.startswith("~A")][0]
        rows = [" %.2f %.2f %.2f" % (i * 0.5, 10 + i, 20 + i) if i == 0 else " %.2f %.2f-%.2f" % (i * 0.5, 10 + i, 20 + i) for i in range(nr)]
        return {"lines": lines[:k + 1] + rows, "wide": False}
    if kind == "comma_dlm":
        doc = docmodel.std_doc(g, ncurves=g.randint(2, 4), nrows=g.randint(2, 4))
        doc["sections"][0]["items"].append(["DLM", "", "COMMA", "DELIMITING CHARACTER"])
        doc["sep"] = g.choice([", ", " , ", ","])
        return {"lines": docmodel.render_doc(doc), "wide": False}
    if kind == "comma_decimal":
        nr = g.randint(2, 5)

        def cell(i, j):
            return ("%.2f" % (i * 0.5 if j == 0 else (i * 10 + j) * 1.25)).replace(".", ",")
        doc = docmodel.std_doc(g, ncurves=3, nrows=nr, cell=cell)
        return {"lines": docmodel.render_doc(doc), "wide": False}
    if kind == "tab_dlm":
        doc = docmodel.std_doc(g, ncurves=g.randint(2, 4), nrows=g.randint(2, 4))
        doc["sections"][0]["items"].append(["DLM", "", "TAB", "DELIMITING CHARACTER"])
        doc["sep"] = "\t"
        return {"lines": docmodel.render_doc(doc), "wide": False}
    doc = docmodel.std_doc(g, custom=g.choice([0, 0, 1]), wrap=g.random() < 0.15)
    return {"lines": docmodel.render_doc(doc), "wide": False}


def draw_channel(g, doc):
    ch = g.choice(READ_CHANNELS)
    cfg = {"channel": ch, "codec": "utf-8", "explicit": True, "newline": "\n"}
    ascii_only = all(ln.isascii() for ln in doc["lines"])
    if ch in FILE_CHANNELS:
        if g.random() < 0.4:
            cfg["path_slot"] = g.randrange(2)        # files are overwritten in place between reads
        text = "\n".join(doc["lines"])
        codecs = ["utf-8", "utf-8-sig", "utf-16"]
        for c in ("latin-1", "cp1252"):
            try:
                text.encode(c)
                if text.encode(c).decode(c) == text:
                    codecs.append(c)
            except UnicodeError:
                pass
        cfg["codec"] = g.choice(codecs)
        cfg["newline"] = g.choice(["\n", "\n", "\r\n", "\r"])
        if cfg["codec"] == "utf-8-sig":
            cfg["explicit"] = g.random() < 0.5       # BOM is detected without encoding=
            if cfg["explicit"] and g.random() < 0.6:
                cfg["encoding_kw"] = g.choice(["utf-8", "UTF-8", "utf8"])     # BOM file, plain UTF-8 named explicitly
        elif ascii_only and cfg["codec"] == "utf-8" and g.random() < 0.3:
            cfg["explicit"] = False
            cfg["no_chardet"] = True
        if cfg["explicit"] and g.random() < 0.25:
            cfg["no_autodetect"] = True              # encoding= named AND detection switched off: the named codec still rules
    else:
        cfg["newline"] = g.choice(["\n", "\n", "\r\n"])
    return cfg


def canon_result(las):
    c = C.canon(las, strict=True, with_session=True, data=True, index_unit=True)
    return c


class C10(Prop):
    id = "C10"
    level = "exploration"
    rule = ("scenario = 3-6 generated documents (non-ASCII header text in the Latin-1 range or BMP/astral, documents lacking "
            "~V/~W/~C so that defaults stay visible, a date file with a hyphen in every data line, a run-on file, DLM COMMA / "
            "DLM TAB files, a decimal-comma file, plain ones) + 1-3 clients with histories of read (channel x codec x newline x options) / write / LASFile() / "
            "mutation of earlier results (header items of parsed and default sections, in-place array writes, renames, "
            "deletes), interleaved by a seeded op-level schedule or by the line-level baton scheduler (real threads, "
            "pre-empted at lasio source lines).  Non-trivial = a read happened after a mutation/other read and a file "
            "channel with a non-UTF-8 or BOM codec or CR/CRLF was used; distinct = distinct event-log digests.")
    assumptions = [
        "only configurations the statement claims: utf-8-sig autodetected by BOM, other codecs with encoding=, pure-ASCII "
        "files also with chardet switched off; CR-only line ends only through files",
        "the reference for (document, options) is a solo read of the same text through a StringIO before the history",
        "`encoding` (the reported codec name) is not part of the compared result; everything else canon() sees is",
        "line-level interleaving never shares an object between clients (lasio makes no thread-safety promise)",
    ]
    quick = {"runs": 6000, "wall": 60}
    thorough = {"runs": 60000, "wall": 900}

    def gen(self, st, tier, index):
        g = st.gen
        kinds = ["nonascii", "nosections", "hyphen", "runon", "plain", "comma_dlm", "comma_decimal", "tab_dlm"]
        docs = [make_doc(g, k) for k in g.sample(kinds, g.randint(3, 6))]
        for d in docs:
            if d.get("expect") and g.random() < 0.3:
                # pad with a comment line so that the first non-ASCII character of the file sits on a buffer or sniffing
                # boundary (a multi-byte character straddling byte 4000 / 8192 / 4096)
                lines = d["lines"]
                k = next((i for i, ln in enumerate(lines) if not ln.isascii()), None)
                if k is not None and k > 1:
                    col = next(j for j, ch in enumerate(lines[k]) if ord(ch) > 127)
                    before = len(("\n".join(lines[:k]) + "\n" + lines[k][:col]).encode("utf-8"))
                    target = g.choice([65535, 65536, 65536, 131072]) if g.random() < 0.12 else g.choice([3999, 4000, 4001, 4095, 4096, 8191, 8192, 8193, 16384])
                    pad = target - before - 2
                    if pad > 0:
                        lines.insert(1, "#" + "p" * pad)
            if g.random() < 0.06 and d["lines"] and d["lines"][0].startswith("~"):
                # a very long first line (titles may carry free text): still LAS data, never a file name
                d["lines"][0] = d["lines"][0] + " " + "-" * g.choice([300, 4000, 4096, 5000, 70000])
        nclients = g.choice([1, 2, 2, 3])
        clients = []
        for c in range(nclients):
            ops = []
            nreads = 0
            for _ in range(g.randint(2, 8)):
                r = g.random()
                if r < 0.55 or nreads == 0:
                    di = g.randrange(len(docs))
                    ops.append(["read", di, draw_channel(g, docs[di]), g.randrange(len(KWS))])
                    nreads += 1
                elif r < 0.8:
                    ops.append(["mutate", g.randrange(8), g.choice(MUTATIONS)])
                elif r < 0.9:
                    ops.append(["write", g.randrange(8), g.choice(["path", "stream", "stringio"])])
                else:
                    ops.append(["new", g.choice(MUTATIONS[:5])])
            clients.append({"ops": ops})
        total = sum(len(c["ops"]) for c in clients)
        line_level = (tier == "thorough" and g.random() < 0.5) or (tier == "quick" and g.random() < 0.04)
        sched = {"kind": "line", "seed": st.sched.randrange(1 << 30), "prob": st.sched.choice([0.002, 0.01, 0.05])} if line_level and nclients > 1 \
            else {"kind": "op", "decisions": [st.sched.randrange(nclients) for _ in range(total * 2)]}
        return {"docs": docs, "clients": clients, "schedule": sched, "policy": Policy.draw(st.io).to_json()}

    # ---------------------------------------------------------------------------------------------------------
    def mutate(self, las, kind, res):
        import lasio
        try:
            if kind == "well_value":
                for it in list(las.well)[:3]:
                    it.value = "MUTATED"
                    it.unit = "XX"
            elif kind == "well_append":
                las.well.append(lasio.HeaderItem("MUT", "u", 1, "mutated"))
            elif kind == "well_delete":
                if len(las.well):
                    del las.well[0]
            elif kind == "version_value":
                for it in list(las.version):
                    it.value = 3.0 if it.original_mnemonic.upper() == "VERS" else "YES"
            elif kind == "curve_inplace":
                for c in las.curves:
                    d = np.asarray(c.data)
                    if d.size and d.dtype.kind == "f":
                        c.data[:] = -1.0
            elif kind == "curve_append":
                n = len(las.curves[0].data) if len(las.curves) else 2
                las.append_curve("MUT", np.zeros(n), unit="u")
            elif kind == "rename_item":
                if len(las.curves):
                    las.curves[0].mnemonic = "RENAMED"
                if len(las.well):
                    las.well[-1].mnemonic = "RENAMED"
            elif kind == "params_append":
                las.params.append(lasio.HeaderItem("MUTP", "", "x", "mutated"))
            elif kind == "other_text":
                las.other = "mutated"
            elif kind == "curve_delete":
                if len(las.curves) > 1:
                    las.delete_curve(ix=len(las.curves) - 1)
        except Exception:
            res.count("mutation-raised")

    def run(self, sc):
        import lasio
        res = Result()
        docs = [docmodel.join(d["lines"]) for d in sc["docs"]]
        fs = SimFS(policy=Policy.from_json(sc["policy"]))
        refs = {}
        log = []
        with fs:
            # reference results, solo, before any history
            for c in sc["clients"]:
                for op in c["ops"]:
                    if op[0] == "read" and (op[1], op[3]) not in refs:
                        try:
                            las = lasio.read(io.StringIO(docs[op[1]]), **KWS[op[3]])
                            refs[(op[1], op[3])] = ("ok", canon_result(las))
                            # ground truth for the header text: what the document says, character by character
                            for secname, mn, field, text in sc["docs"][op[1]].get("expect") or []:
                                its = [it for it in las.sections[secname] if it.original_mnemonic.upper() == mn]
                                if not its:
                                    continue
                                got = getattr(its[0], field)
                                res.count("header-text-checked")
                                if got != text:
                                    res.violate("C10.header-text", "~%s item %s %s is %r in the document but %r after read(%r)" % (
                                        secname, mn, field, text, got, KWS[op[3]]))
                        except Exception as e:
                            refs[(op[1], op[3])] = ("raised", type(e).__name__)

            state = {"after_activity": False, "exotic": False}

            def do_op(cid, results, op):
                kind = op[0]
                res.count("op:" + kind)
                if kind == "read":
                    _, di, cfg, ki = op
                    ref = refs[(di, ki)]
                    try:
                        las = read_via(fs, docs[di], cfg, KWS[ki], tag="c%d" % cid)
                        got = ("ok", canon_result(las))
                    except Exception as e:
                        las = None
                        got = ("raised", type(e).__name__)
                    if cfg["channel"] in FILE_CHANNELS and (cfg["codec"] != "utf-8" or cfg["newline"] != "\n"):
                        state["exotic"] = True
                    if got != ref:
                        if got[0] != ref[0] or got[0] == "raised":
                            msg = "reference %s %s, this read %s %s" % (ref[0], ref[1] if ref[0] == "raised" else "", got[0], got[1] if got[0] == "raised" else "")
                        else:
                            msg = "; ".join(C.diff(ref[1], got[1]))
                        res.violate("C10.read-differs", "client c%d: read of document #%d through %r with %r differs from the solo StringIO "
                                    "read of the same text: %s" % (cid, di, cfg, KWS[ki], msg))
                    if las is not None:
                        results.append(las)
                    log.append([cid, "read", di, ki, cfg["channel"], cfg["codec"], cfg["newline"], got[0]])
                elif kind == "mutate":
                    if results:
                        self.mutate(results[op[1] % len(results)], op[2], res)
                        state["after_activity"] = True
                    log.append([cid, "mutate", op[2]])
                elif kind == "write":
                    if results:
                        try:
                            write_via(fs, results[op[1] % len(results)], op[2], {}, tag="c%d" % cid)
                        except Exception:
                            res.count("write-raised")
                        state["after_activity"] = True
                    log.append([cid, "write", op[2]])
                elif kind == "new":
                    las = lasio.LASFile()
                    self.mutate(las, op[1], res)
                    results.append(las)
                    state["after_activity"] = True
                    log.append([cid, "new", op[1]])

            sched = sc["schedule"]
            if sched["kind"] == "op" or len(sc["clients"]) == 1:
                pcs = [0] * len(sc["clients"])
                results = [[] for _ in sc["clients"]]
                decisions = list(sched.get("decisions", []))
                while any(pcs[i] < len(c["ops"]) for i, c in enumerate(sc["clients"])):
                    who = decisions.pop(0) % len(pcs) if decisions else 0
                    if pcs[who] >= len(sc["clients"][who]["ops"]):
                        who = [i for i, c in enumerate(sc["clients"]) if pcs[i] < len(c["ops"])][0]
                    do_op(who, results[who], sc["clients"][who]["ops"][pcs[who]])
                    pcs[who] += 1
                    if res.violations:
                        break
                res.count("op-level-runs")
            else:
                ls = LineScheduler(sched["seed"], sched["prob"])

                def body(cid, ops):
                    results = []

                    def fn():
                        for op in ops:
                            do_op(cid, results, op)
                    return fn
                errors = ls.run([(i, body(i, c["ops"])) for i, c in enumerate(sc["clients"])])
                for cid, e in sorted(errors.items()):
                    res.violate("C10.client-raised", "client c%d raised %s: %s under line-level interleaving" % (cid, type(e).__name__, str(e)[:200]))
                res.count("line-level-runs")
                res.count("preemption-points", ls.points)
                res.count("thread-switches", ls.switches)
                log.append(["line-sched", ls.points, ls.switches, ls.trace_digest])
                log.sort(key=lambda x: str(x))      # per-client order is in the entries; global order is in trace_digest
        res.log = log
        res.nontrivial = state["after_activity"] and state["exotic"]
        res.events = fs.seq
        res.merge_counts(fs.counts)
        return res

    def shrink_lists(self, sc):
        return [("clients",)] + [("clients", i, "ops") for i in range(len(sc["clients"]))]

    def valid(self, sc):
        n = len(sc["docs"])
        return len(sc["clients"]) >= 1 and all(op[0] != "read" or op[1] < n for c in sc["clients"] for op in c["ops"])

    def simplify(self, sc):
        if sc["schedule"]["kind"] == "line":
            d = copy.deepcopy(sc)
            d["schedule"] = {"kind": "op", "decisions": []}
            yield d
        elif sc["schedule"].get("decisions"):
            d = copy.deepcopy(sc)
            d["schedule"] = {"kind": "op", "decisions": []}
            yield d
        if sc["policy"] != Policy().to_json():
            d = copy.deepcopy(sc)
            d["policy"] = Policy().to_json()
            yield d
        for ci, c in enumerate(sc["clients"]):
            for oi, op in enumerate(c["ops"]):
                if op[0] == "read":
                    if op[3] != 0:
                        d = copy.deepcopy(sc)
                        d["clients"][ci]["ops"][oi][3] = 0
                        yield d
                    if op[2]["newline"] != "\n":
                        d = copy.deepcopy(sc)
                        d["clients"][ci]["ops"][oi][2]["newline"] = "\n"
                        yield d
                    if op[2]["channel"] != "stringio":
                        d = copy.deepcopy(sc)
                        d["clients"][ci]["ops"][oi][2] = {"channel": "stringio", "codec": "utf-8", "explicit": True, "newline": "\n"}
                        yield d
        # shorter documents: drop lines of a document (keeps titles)
        for di, doc in enumerate(sc["docs"]):
            if len(doc["lines"]) > 12:
                body = [i for i, ln in enumerate(doc["lines"]) if not ln.startswith("~")]
                for chunk in (body[:len(body) // 2], body[len(body) // 2:]):
                    d = copy.deepcopy(sc)
                    d["docs"][di]["lines"] = [ln for i, ln in enumerate(doc["lines"]) if i not in set(chunk)]
                    yield d


PROP = C10()

PROP.rule += (" Strata added while closing seeded changes (DESIGN section 10): "
              'comma/tab/decimal-comma documents, overwritten paths, BOM + explicit utf-8, ground truth for non-ASCII header fields incl. invisible, non-NFC and case-quirk characters, very long first lines, first non-ASCII character aligned with 4000/4096/8192-byte boundaries.')
PROP.rule += ' Round 8: 64 KiB alignments, encoding= together with autodetect_encoding=False.'
