"""C06 - exactly the NULL-valued samples of non-index curves become NaN.

Generated documents with a NULL value in several spellings, NULL-equal and near-NULL cells at any site incl. the
index, text columns, wrapped/unwrapped; read through the simulated channels with both engines under
null_policy strict/none; then one save/load cycle through the simulated file system for the write half."""
import copy
import math

import numpy as np

from .. import docmodel
from ..channels import draw_read_channel, read_via, write_via
from ..core import Prop, Result
from ..simfs import SimFS, Policy
from ..swarm import neutral_read_kw, neutral_write_kw, fix_kw

NULLS = {
    "-999.25": ["-999.25", "-999.2500", "-9.9925E2", "-9.9925e+02", "-0999.25"],
    "-9999": ["-9999", "-9999.0", "-9.999E3", "-9999.00"],
    "0": ["0", "0.0", "0E0", "-0.0", "0.000"],
    "9999.25": ["9999.25", "9999.250", "9.99925E3", "+9999.25"],
    "1e30": ["1e30", "1E+30", "1.0e30", "1.000E30"],
    "5": ["5", "5.0", "5.000", "5E0"],
    "-2147483647": ["-2147483647", "-2147483647.0", "-2.147483647E9"],
    "-99999.25": ["-99999.25", "-99999.250", "-9.999925E4"],
    "-999.2501": ["-999.2501", "-999.25010", "-9.992501E2"],
    "32767": ["32767", "32767.0", "3.2767E4"],
    "0.5": ["0.5", "0.50", "5E-1", ".5"],
    "-1.5": ["-1.5", "-1.50", "-15E-1"],
    "1": ["1", "1.0", "1E0"],
}
NEAR = {
    "-999.25": ["-999.2501", "-999.24", "-999", "-999.249999", "999.25"],
    "-9999": ["-9999.1", "-9998", "9999", "-9999.0001"],
    "0": ["0.0001", "-1e-9", "1", "1e-17", "-2e-16", "5e-324", "-1e-300"],
    "9999.25": ["9999.2501", "9999", "-9999.25"],
    "1e30": ["1.1e30", "9.99e29", "-1e30"],
    "5": ["5.0001", "4.9999", "-5"],
    "-2147483647": ["-2147483648", "-2147483646", "-2.14748e+09"],
    "-99999.25": ["-99999.2", "-99999.3", "-99999.251"],
    "-999.2501": ["-999.25", "-999.250", "-999.2502"],
    "32767": ["32768", "-32767", "32767.5"],
    "0.5": ["0.5000000000000001", "0.49999999999999994", "0.5000001", "-0.5"],
    "-1.5": ["-1.5000000000000002", "-1.4999999999999998", "1.5"],
    "1": ["1.0000000000000002", "0.9999999999999999", "-1"],
}
PLAIN = ["1", "2.5", "-3.75", "100", "0.125", "45.5", "1.5E2", "-7"]
TEXTS = ["abc", "LIME", "x-1", "n/a", "SAND"]
NANLIT = ["NaN", "nan", "NAN"]
NUMLIKE = ["-999.2500", "1E3", "007", "5.0", "-9.9925E2"]


def _numlike_text(sc, v, params):
    """known finding: number-like tokens in a text column are re-spelled (every token goes through float() first)"""
    tc = sc.get("textcol")
    if tc is None:
        return False
    for r in sc["rows"]:
        try:
            float(r[tc])
            return True
        except ValueError:
            pass
    return False


class C06(Prop):
    id = "C06"
    predicates = {"number_like_token_in_text_column": _numlike_text}
    level = "exploration"
    rule = ("scenario = NULL value (negative, positive, integer, zero, large, > 6 significant digits) x spelling of the ~Well "
            "NULL item x cells drawn from {NULL spellings, near-NULL values, plain numbers} at any site incl. the index "
            "column, optional text column, wrapped or not, x null_policy strict/none x engine x channel/codec/newline/"
            "delivery; followed by write -> read of the strict result.  Non-trivial = at least one NULL-equal cell in a "
            "non-index numeric column and one in the index or a near-NULL cell; distinct = distinct event-log digests.")
    assumptions = [
        "expected cell value = Python float() of the cell's spelling; 'numerically equal to NULL' = float(cell) == "
        "float(NULL spelling)",
        "a text column holds text in every row (dtype is decided from the first row)",
        "the write half uses default writer options plus a drawn version/wrap",
    ]
    quick = {"runs": 40000, "wall": 60}
    thorough = {"runs": 300000, "wall": 900}

    def gen(self, st, tier, index):
        g = st.gen
        nk = g.choice(list(NULLS))
        nc, nr = g.randint(2, 5), g.randint(1, 8)
        textcol = g.randint(1, nc - 1) if g.random() < 0.2 else None
        rows = []
        nanlit = g.random() < 0.25
        numlike = g.random() < 0.08          # a text column (text in its first row) with number-like tokens further down
        for i in range(nr):
            row = []
            for j in range(nc):
                q = g.random()
                if j == textcol:
                    row.append(g.choice(TEXTS) if i == 0 or not numlike else g.choice(TEXTS + NUMLIKE))
                elif j == 0:
                    row.append(g.choice(NULLS[nk]) if q < 0.12 else "%.2f" % (100 + i * 0.5))
                elif q < 0.3:
                    row.append(g.choice(NULLS[nk]))
                elif q < 0.5:
                    row.append(g.choice(NEAR[nk]))
                elif q < 0.53 and nanlit:
                    row.append(g.choice(NANLIT))          # a sample that is not-a-number to begin with
                else:
                    row.append(g.choice(PLAIN))
            rows.append(row)
        sc0 = self._gen_rest(g, st, nk, nc, nr, rows, textcol)
        if sc0["no_null_item"]:
            # cells equal to the NULL values of the files a used reading object may have seen before (-5, 7)
            for r_ in rows:
                j = g.randrange(1, nc)
                if j != textcol:
                    r_[j] = g.choice(["-5", "7", "-5.0", "7.00", "-5E0"])
            if g.random() < 0.7 and not sc0["channel"].get("used_object"):
                sc0["channel"]["used_object"] = g.choice(["PLAIN", "COMMA", "TAB", "WRAP"])
        return sc0

    def _gen_rest(self, g, st, nk, nc, nr, rows, textcol):
        return {"undeclared": g.choice([0, 0, 0, 1, 2]) if nc >= 3 else 0, "touch_then_nan": g.random() < 0.25,
                "retype": g.choice([None, None, None, None, "float32", "float32", "float16"]),
                # the file declares no NULL at all: then nothing is null (whatever the reading object saw before)
                "no_null_item": g.random() < 0.06,
                "null_key": nk, "null_spelling": g.choice(NULLS[nk]), "rows": rows, "textcol": textcol,
                "wrap": g.random() < 0.2 and nc >= 3, "policy_null": g.choice(["strict", "strict", "none"]),
                "nkw": neutral_read_kw(g, exclude=("null_policy",)), "engine": g.choice(["numpy", "normal"]), "vers": g.choice([1.2, 2.0]), "case": g.choice(["upper", "upper", "lower", "preserve"]),
                "channel": draw_read_channel(g, ascii_only=True, used_object_p=0.1), "policy": Policy.draw(st.io).to_json(),
                "wkw": g.choice([{}, {}, {"version": 1.2}, {"wrap": True}, {"version": 2.0, "wrap": False}, {"fmt": "%.4f"},
                                 {"fmt": "%12.4f", "len_numeric_field": -1}, {"fmt": "%+.3f"}, {"fmt": "%10.3E"}, {"fmt": "%-9.2f"},
                                 {"column_fmt": {"1": "%8.2f"}}, {"column_fmt": {"1": "%+.5f", "2": "%G"}}]),
                "out": g.choice(["path", "stream", "stringio"])}

    def text(self, sc):
        nc = len(sc["rows"][0])
        lines = docmodel.version_section(sc["vers"], "YES" if sc["wrap"] else "NO")
        lines += docmodel.well_section(100.0, 101.0, 0.5, None if sc.get("no_null_item") else sc["null_spelling"], "M",
                                       (("COMP", "", "ACME", "COMPANY"),), version=sc["vers"])
        nd = nc - (0 if sc["wrap"] else sc.get("undeclared", 0))     # the last columns are not declared in ~C (unwrapped files only)
        lines += docmodel.curve_section(([("DEPT", "M", "", "index")] + [("C%d" % j, "U", "", "curve %d" % j) for j in range(1, nc)])[:nd])
        lines.append("~ASCII")
        for r in sc["rows"]:
            if sc["wrap"]:
                lines.append(" " + r[0])
                lines.append(" " + " ".join(r[1:]))
            else:
                lines.append(" " + " ".join(r))
        return docmodel.join(lines)

    def run(self, sc):
        res = Result()
        text = self.text(sc)
        nullv = float(sc["null_spelling"])
        rows = sc["rows"]
        nr, nc = len(rows), len(rows[0])
        fs = SimFS(policy=Policy.from_json(sc["policy"]))
        with fs:
            try:
                las = read_via(fs, text, sc["channel"], fix_kw(dict(sc.get("nkw") or {}, engine=sc["engine"], null_policy=sc["policy_null"],
                                                             mnemonic_case=sc.get("case", "upper"))), tag="c06")
            except Exception as e:
                res.violate("C06.unreadable", "document could not be read: %s: %s" % (type(e).__name__, str(e).strip().splitlines()[-1][:200] if str(e).strip() else ""))
                return res
            res.events = fs.seq
            res.log.append([sc["null_spelling"], sc["policy_null"], sc["engine"], sc["channel"], sc["wrap"], sc["textcol"]])
            curves = list(las.curves)
            if len(curves) != nc or any(len(np.asarray(c.data)) != nr for c in curves):
                res.violate("C06.shape", "read %d curves of lengths %r, expected %d x %d" % (len(curves), [len(c.data) for c in curves], nc, nr))
                return res
            n_null_nonindex = n_other = 0
            expect_nan = []
            for j in range(nc):
                a = np.asarray(curves[j].data)
                for i in range(nr):
                    cell = rows[i][j]
                    if j == sc["textcol"]:
                        if str(a[i]) != cell:
                            res.violate("C06.text", "text cell %r at (%d,%d) came back as %r" % (cell, i, j, a[i]))
                            return res
                        continue
                    if a.dtype.kind != "f":
                        res.violate("C06.dtype", "numeric column %d came back with dtype %s" % (j, a.dtype))
                        return res
                    v = float(cell)
                    if math.isnan(v):
                        # not-a-number as written: stays NaN under every policy, and says nothing about its neighbours
                        if not math.isnan(float(a[i])):
                            res.violate("C06.changed", "cell %r at (row %d, curve %d) came back as %r" % (cell, i, j, float(a[i])))
                            return res
                        res.count("literal-nan-cells")
                        continue
                    is_null = (v == nullv)
                    want_nan = is_null and j != 0 and sc["policy_null"] == "strict" and not sc.get("no_null_item")
                    if is_null and j != 0:
                        n_null_nonindex += 1
                    elif is_null or cell in NEAR[sc["null_key"]]:
                        n_other += 1
                    got = float(a[i])
                    if want_nan:
                        expect_nan.append((i, j))
                        if not math.isnan(got):
                            res.violate("C06.missed", "cell %r at (row %d, curve %d) equals NULL %r but came back as %r (policy=%s engine=%s)" % (
                                cell, i, j, sc["null_spelling"], got, sc["policy_null"], sc["engine"]))
                            return res
                    else:
                        if math.isnan(got):
                            res.violate("C06.spurious", "cell %r at (row %d, curve %d%s) came back as NaN (NULL %r, policy=%s engine=%s)" % (
                                cell, i, j, ", the index" if j == 0 else "", sc["null_spelling"], sc["policy_null"], sc["engine"]))
                            return res
                        if got != v:
                            res.violate("C06.changed", "cell %r at (row %d, curve %d) came back as %r" % (cell, i, j, got))
                            return res
            res.nontrivial = n_null_nonindex > 0 and n_other > 0
            # write half: NaN -> current NULL, same NaN set after write -> read
            fmtw = sc["wkw"].get("fmt", "%.5f")
            cfw = sc["wkw"].get("column_fmt") or {}
            if sc.get("retype") and sc["textcol"] is None:
                # the caller keeps the table in another floating type (every curve, so the stacked table has it too)
                for c in curves:
                    c.data = np.asarray(c.data).astype(sc["retype"])
                res.count("retyped:" + sc["retype"])
            rounds_to_null = any(
                (not math.isnan(float(x))) and float(cfw.get(str(j), fmtw) % float(x)) == nullv
                for j in range(1, nc) if j != sc["textcol"] for x in np.asarray(curves[j].data).tolist())
            if rounds_to_null:
                # a finite sample whose printed form is numerically the NULL marker legitimately reads back as NaN
                res.count("write-half-skipped-sample-prints-as-null")
            elif sc.get("no_null_item"):
                res.count("write-half-skipped-no-null-item")
            elif sc["policy_null"] == "strict":
                numcols = [j for j in range(nc) if j != sc["textcol"]]        # a text column travels along, untouched
                if sc.get("touch_then_nan"):
                    # the data table is looked at, then a sample is set to NaN in place, then the file is written
                    try:
                        las.data
                        las.index
                    except Exception:
                        pass
                    for j in range(1, nc):
                        a = np.asarray(curves[j].data)
                        if a.dtype.kind == "f" and len(a):
                            las.curves[j].data[(j * 7) % len(a)] = np.nan
                            break
                    res.count("in-place-nan-after-table-access")
                try:
                    out = write_via(fs, las, sc["out"], fix_kw(sc["wkw"]), tag="c06")
                    back = read_via(fs, out, {"channel": "stringio", "codec": "utf-8", "explicit": False, "newline": "\n"},
                                    {"engine": sc["engine"]}, tag="c06")
                except Exception as e:
                    res.violate("C06.write-cycle", "write -> read of the result raised %s: %s" % (type(e).__name__, str(e).strip().splitlines()[-1][:200] if str(e).strip() else ""))
                    return res
                res.count("write-cycles")
                bc = list(back.curves)
                if len(bc) != nc or any(len(np.asarray(c.data)) != nr for c in bc):
                    res.violate("C06.write-cycle", "shape changed over write -> read: %d curves of lengths %r" % (len(bc), [len(c.data) for c in bc]))
                    return res
                textual = [j for j in numcols if np.asarray(bc[j].data).dtype.kind not in "fiu"]
                if textual:
                    res.violate("C06.write-cycle", "numeric curve #%d came back as %s after write(%r) -> read: %r" % (
                        textual[0], np.asarray(bc[textual[0]].data).dtype, sc["wkw"], np.asarray(bc[textual[0]].data).tolist()[:4]))
                    return res
                nan_before = sorted((i, j) for j in numcols for i in range(nr) if math.isnan(float(np.asarray(curves[j].data)[i])))
                nan_after = sorted((i, j) for j in numcols for i in range(nr) if math.isnan(float(np.asarray(bc[j].data)[i])))
                if nan_before != nan_after:
                    res.violate("C06.write-cycle", "NaN positions %r became %r after write(%r) -> read (NULL %r)" % (
                        nan_before[:6], nan_after[:6], sc["wkw"], sc["null_spelling"]))
                    return res
                # "every NaN is emitted as the current NULL value": read the same text without any NULL handling
                try:
                    raw = read_via(fs, out, {"channel": "stringio", "codec": "utf-8", "explicit": False, "newline": "\n"},
                                   {"engine": sc["engine"], "null_policy": "none"}, tag="c06")
                    cur_null = float(las.well["NULL"].value)
                    rc = list(raw.curves)
                    for (i, j) in nan_before:
                        if j == 0:
                            continue
                        got = float(np.asarray(rc[j].data)[i])
                        if not (got == cur_null):
                            res.violate("C06.write-null", "NaN at (row %d, curve %d) was written as %r, not as the NULL value %r (write %r, dtype %s)" % (
                                i, j, got, cur_null, sc["wkw"], np.asarray(curves[j].data).dtype))
                            return res
                    res.count("written-null-checked", len(nan_before))
                except (KeyError, IndexError, ValueError, TypeError) as e:
                    res.count("written-null-check-skipped:" + type(e).__name__)
        res.events = fs.seq
        res.merge_counts(fs.counts)
        return res

    def shrink_lists(self, sc):
        return [("rows",)]

    def valid(self, sc):
        return len(sc["rows"]) >= 1

    def simplify(self, sc):
        nc = len(sc["rows"][0])
        if nc > 2 and sc["textcol"] is None:
            d = copy.deepcopy(sc)
            d["rows"] = [r[:-1] for r in d["rows"]]
            if not (d["wrap"] and nc - 1 < 3):
                yield d
        for k, v in (("wrap", False), ("wkw", {}), ("out", "stringio"), ("engine", "normal"), ("vers", 2.0), ("case", "upper")):
            if sc.get(k, v) != v:
                d = copy.deepcopy(sc)
                d[k] = v
                yield d
        if sc["channel"]["channel"] != "stringio" or sc["channel"]["newline"] != "\n":
            d = copy.deepcopy(sc)
            d["channel"] = {"channel": "stringio", "codec": "utf-8", "explicit": False, "newline": "\n"}
            yield d
        if sc["policy"] != Policy().to_json():
            d = copy.deepcopy(sc)
            d["policy"] = Policy().to_json()
            yield d
        for i, r in enumerate(sc["rows"]):
            for j, cell in enumerate(r):
                if j != sc["textcol"] and cell not in ("1", "100.00") and cell not in NULLS[sc["null_key"]][:1]:
                    d = copy.deepcopy(sc)
                    d["rows"][i][j] = "100.00" if j == 0 else "1"
                    yield d


PROP = C06()

PROP.rule += (" Strata added while closing seeded changes (DESIGN section 10): "
              "undeclared columns, in-place NaN after a table access, |NULL| < 2 with neighbours at 1 ulp, literal NaN cells, float32/float16 tables, formats with width/sign/upper case, the written text read with null_policy='none', files without a NULL item read through a used object.")
