"""C20 - every file lasio opens is closed again, whatever fails and wherever.

Fault enumeration: for each (call kind, input class, options, delivery policy) a clean run counts the
N low-level operations (open, getsize, raw read, seek, write, close); then one run per k = 1..N injects
an OSError at the k-th operation.  The oracle is evaluated at the instant the call returns or raises,
while the exception (and so its traceback and frames) is still referenced.
"""
import io
import pathlib

from .. import builder, docmodel
from ..core import Prop, Result
from ..simfs import SimFS, Policy

READ_INPUTS = ["ok", "ok_wrapped", "ok_big", "nosections", "hdrerr", "reshape", "decode", "lidar", "empty",
               "missing", "bom", "one_line", "utf16", "latin1", "textcol", "hdrerr_late", "lidar_bom", "decode_late", "directory", "gzipped"]
READ_KW = [
    {},
    {"engine": "normal"},
    {"autodetect_encoding": False},
    {"encoding": "latin-1"},
    {"encoding": "utf-8"},
    {"ignore_data": True},
    {"ignore_header_errors": True},
    {"autodetect_encoding_chars": None},
    {"autodetect_encoding": "chardet", "autodetect_encoding_chars": 20},
    {"encoding": "no-such-codec"},
    {"encoding": "utf-8", "encoding_errors": "no-such-handler"},
]
WRITE_INPUTS = ["ok", "ok_nan", "no_null", "no_vers", "no_wrap", "bad_fmt", "empty", "ragged", "no_strt"]
WRITE_KW = [{}, {"version": 1.2}, {"version": 2.0, "wrap": True}, {"wrap": False, "fmt": "%.3f"},
            {"mnemonics_header": True}, {"len_numeric_field": -1, "fmt": "%.2f"}, {"data_width": 30, "wrap": True}]
CSV_INPUTS = ["ok", "ok_nan", "no_curves", "bad_kw", "none_unit", "ragged"]
CSV_KW = [{}, {"units_loc": "[]"}, {"units_loc": "()"}, {"mnemonics": False, "units": False},
          {"lineterminator": "\r\n"}, {"units_loc": None}]
CALLS = ["read_str", "read_path", "write_path", "tocsv_path", "write_stream", "tocsv_stream",
         "write_stringio", "tocsv_stringio", "read_ctor", "read_func", "write_bstream", "tocsv_bstream", "write_bytesio", "tocsv_bytesio"]

IN = "/simfs/c0/in.las"
OUT = "/simfs/c0/out.las"


def read_input_bytes(kind, n, m):
    """-> bytes or None (missing)."""
    if kind == "ok":
        return docmodel.join(docmodel.simple_doc(n, m)).encode("utf-8")
    if kind == "ok_wrapped":
        return docmodel.join(docmodel.simple_doc(max(n, 2), m, wrap="YES")).encode("utf-8")
    if kind == "ok_big":
        return docmodel.join(docmodel.simple_doc(n + 4, m * 6 + 25)).encode("utf-8")
    if kind == "nosections":
        return b"this is\nnot a las file\nat all\n"
    if kind == "hdrerr":
        lines = docmodel.simple_doc(n, m)
        lines.insert(6, "garbage without any separator")
        return docmodel.join(lines).encode("utf-8")
    if kind == "reshape":
        lines = docmodel.simple_doc(max(n, 2), max(m, 2))
        lines[-1] = lines[-1].rsplit(" ", 1)[0]      # last row is one value short
        return docmodel.join(lines).encode("utf-8")
    if kind == "decode":
        lines = docmodel.simple_doc(n, m)
        b = docmodel.join(lines).encode("utf-8")
        i = b.find(b"ACME")
        return b[:i] + b"\xff\xfe\xfa" + b[i:]
    if kind == "decode_late":
        # undecodable bytes far beyond the part that encoding detection and the first decode chunk look at
        lines = docmodel.simple_doc(n + 2, 400 + m)
        b = docmodel.join(lines).encode("utf-8")
        i = b.rfind(b"\n", 0, len(b) - 40)
        return b[:i] + b" \xff\xfe\xfa" + b[i:]
    if kind == "gzipped":
        import gzip
        return gzip.compress(docmodel.join(docmodel.simple_doc(n, m)).encode("utf-8"), mtime=0)     # a compressed LAS file
    if kind == "lidar":
        return b"LASF" + bytes(range(0, 200))
    if kind == "empty":
        return b""
    if kind == "missing":
        return None
    if kind == "bom":
        return b"\xef\xbb\xbf" + docmodel.join(docmodel.simple_doc(n, m, well_extra=(("COMP", "", "ÅCME ØL", "COMPANY"),))).encode("utf-8")
    if kind == "one_line":
        return b"~V only a title line and nothing else"
    if kind == "utf16":
        return docmodel.join(docmodel.simple_doc(n, m, well_extra=(("COMP", "", "ÅCME ØL", "COMPANY"),))).encode("utf-16")
    if kind == "latin1":
        return docmodel.join(docmodel.simple_doc(n, m, well_extra=(("COMP", "", "Société Générale ± µ", "COMPANY"),))).encode("latin-1")
    if kind == "textcol":
        return docmodel.join(docmodel.simple_doc(max(n, 2), m, cell=lambda i, j: "txt%d" % i if j == 1 else "%.2f" % (i + j))).encode("utf-8")
    if kind == "hdrerr_late":
        lines = docmodel.simple_doc(n, m)
        k = [i for i, ln in enumerate(lines) if ln.startswith("~Parameter")][0]
        lines.insert(k + 1, "no separators in this parameter line")
        return docmodel.join(lines).encode("utf-8")
    if kind == "lidar_bom":
        return b"\xef\xbb\xbfLASF" + bytes(range(32, 120))
    raise ValueError(kind)


def write_object(kind, n, m):
    import numpy as np
    import lasio
    if kind in ("ok", "bad_fmt"):
        return builder.build_las(builder.simple_spec(n, m))
    if kind == "ok_nan":
        return builder.build_las(builder.simple_spec(max(n, 2), m, nan_cells=[(0, 1), (m - 1, max(n, 2) - 1)]))
    if kind == "no_null":
        spec = builder.simple_spec(max(n, 2), m, nan_cells=[(m - 1, 1)])
        spec["del_well"] = ["NULL"]
        return builder.build_las(spec)
    if kind == "no_vers":
        spec = builder.simple_spec(n, m)
        spec["del_version"] = ["VERS"]
        return builder.build_las(spec)
    if kind == "no_wrap":
        spec = builder.simple_spec(n, m)
        spec["del_version"] = ["WRAP"]
        return builder.build_las(spec)
    if kind == "no_strt":
        spec = builder.simple_spec(n, m)
        spec["del_well"] = ["STRT"]
        return builder.build_las(spec)
    if kind in ("empty", "no_curves"):
        return lasio.LASFile()
    if kind == "ragged":
        las = builder.build_las(builder.simple_spec(max(n, 2), max(m, 2)))
        las.curves[1].data = np.arange(max(m, 2) + 3, dtype=float)
        return las
    if kind == "none_unit":
        las = builder.build_las(builder.simple_spec(max(n, 2), m))
        las.curves[1].unit = None
        return las
    if kind == "bad_kw":
        return builder.build_las(builder.simple_spec(n, m))
    raise ValueError(kind)


class C20(Prop):
    id = "C20"
    level = "fault_enumeration"
    rule = ("scenario = (call kind in read(str)/read(Path)/write(path)/to_csv(path)/write|to_csv(caller stream), "
            "input class incl. every input-induced failure class, keyword options, stream delivery policy); each "
            "scenario runs clean once (N low-level ops) and then once per k=1..N (sampled above the cap) with an "
            "OSError injected at the k-th open/getsize/read/seek/write/close.  Non-trivial = at least one injected "
            "fault fired or the call failed by input; distinct = distinct run digests (outcome class and op trace "
            "per sub-run).")
    assumptions = [
        "handles are observed through the patched builtins.open/io.open/os.path.getsize for /simfs/* only; "
        "lasio opens files nowhere else (urlopen channel not exercised)",
        "a handle counts as closed iff the outermost object lasio received reports closed at the instant the call "
        "returns/raises while the exception is still referenced (reference counting cannot hide a leak, since "
        "SimFS keeps a reference to every object it hands out)",
        "SimRaw.close releases the handle even when the injected close error is raised (close(2) semantics)",
    ]
    quick = {"runs": 3000, "wall": 60}
    thorough = {"runs": 40000, "wall": 900}

    def gen(self, st, tier, index):
        g = st.gen
        call = CALLS[index % len(CALLS)] if index < 64 else g.choice(CALLS)
        sc = {"call": call, "n": g.choice([1, 2, 3, 5]), "m": g.choice([1, 2, 3, 6]),
              "policy": Policy.draw(st.io).to_json(), "fault_mode": "sweep",
              "cap": 120 if tier == "quick" else 500, "fault_seed": st.fault.randrange(1 << 30),
              "errno": st.fault.choice(["EIO", "EIO", "ENOSPC", "EACCES"])}
        if call.startswith("read"):
            sc["input"] = g.choice(READ_INPUTS)
            sc["kw"] = dict(g.choice(READ_KW))
            sc["suffix"] = g.choice(["", "", "", ".gz", ".gz", ".txt", ".LAS", ".bz2", ".zip"])
            if sc["input"] == "gzipped":
                sc["suffix"] = g.choice([".gz", ".gz", ".las.gz", ""])
                sc["kw"] = dict(g.choice([{}, {"encoding": "no-such-codec"}, {"encoding": "utf-8"}, {"encoding": "utf-8", "encoding_errors": "no-such-handler"},
                                          {"autodetect_encoding": False}]))
            if sc["input"] in ("decode", "decode_late"):
                sc["kw"] = g.choice([{"encoding": "utf-8", "encoding_errors": "strict"}, {"encoding_errors": "strict"},
                                     {"encoding_errors": "strict", "autodetect_encoding": False}, {"encoding": "ascii", "encoding_errors": "strict"}])
            if sc["input"] == "decode_late":
                sc["policy"] = Policy(buffer=g.choice([256, 8192]), chunk=g.choice([64, 8192])).to_json()
                sc["cap"] = min(sc["cap"], 60)
            if sc["input"] == "ok_big":
                sc["policy"] = Policy(buffer=g.choice([64, 256, 8192]), chunk=g.choice([32, 8192])).to_json()
        if not call.startswith("read") and g.random() < 0.15:
            # the same LASFile object went through a write()/to_csv() whose open() itself failed (missing directory) just before
            sc["prior_failed_open"] = g.choice(["write", "to_csv"])
        if call.startswith("read"):
            pass
        elif call.startswith("write"):
            sc["input"] = g.choice(WRITE_INPUTS)
            sc["kw"] = dict(g.choice(WRITE_KW))
            if sc["input"] == "bad_fmt":
                sc["kw"] = {"fmt": "%q"}
        else:
            sc["input"] = g.choice(CSV_INPUTS)
            sc["kw"] = dict(g.choice(CSV_KW))
            if sc["input"] == "bad_kw":
                sc["kw"] = {"delimiter": "ab"}
        return sc

    # one execution ---------------------------------------------------------------------------------
    def execute(self, sc, fault):
        """Returns (outcome_class, nops, fired, problems[list of (oracle,msg)], counts)."""
        import lasio
        call, kind = sc["call"], sc["input"]
        fs = SimFS(policy=Policy.from_json(sc["policy"]), faults=[fault] if fault else [])
        problems = []
        caller_stream = None
        las = None
        exc = None
        with fs:
            if call.startswith("read"):
                inp = IN + sc.get("suffix", "")        # the file name may look like another kind of file (.gz, .txt, none)
                data = read_input_bytes(kind, sc["n"], sc["m"]) if kind != "directory" else None
                if kind == "directory":
                    fs.dirs.add(inp)                 # the path names a directory
                if data is not None:
                    fs.store(inp, data)
                src = pathlib.Path(inp) if call == "read_path" else inp
                las = lasio.LASFile()
                try:
                    if call == "read_ctor":
                        las = lasio.LASFile(src, **sc["kw"])
                    elif call == "read_func":
                        las = lasio.read(src, **sc["kw"])
                    else:
                        las.read(src, **sc["kw"])
                except BaseException as e:      # noqa - kept alive on purpose
                    exc = e
            else:
                try:
                    las = write_object(kind, sc["n"], sc["m"])
                except Exception as e:
                    return "build-failed:" + type(e).__name__, 0, [], [], {}
                base = fs.seq
                if call.endswith("_path"):
                    dst = OUT
                elif call.endswith("_bytesio"):
                    caller_stream = io.BytesIO()
                    dst = caller_stream
                elif call.endswith("stream"):
                    # the caller opens the stream before the call: not part of the fault window
                    saved, fs.faults = fs.faults, []
                    caller_stream = fs.open_as_caller(OUT, "wb" if call.endswith("_bstream") else "w", **({} if call.endswith("_bstream") else {"newline": ""}))
                    fs.faults = [dict(f, at=f["at"] + fs.seq) if "at" in f else f for f in saved]
                    dst = caller_stream
                else:
                    caller_stream = io.StringIO()
                    dst = caller_stream
                if sc.get("prior_failed_open"):
                    try:
                        getattr(las, sc["prior_failed_open"])("/nonexistent-directory-lasim/out.las")
                    except Exception:
                        pass
                try:
                    if call.startswith("write"):
                        las.write(dst, **sc["kw"])
                    else:
                        las.to_csv(dst, **sc["kw"])
                except BaseException as e:      # noqa
                    exc = e
            if caller_stream is not None and call.endswith(("_bstream", "_bytesio")):
                # a binary handle is not what write()/to_csv() document; whatever they do with it, it stays the caller's:
                # drop every other reference first (wrappers lasio may have created die here) and then look at the handle
                import gc
                exc_type = type(exc).__name__ if exc is not None else None
                exc = None
                gc.collect()
                exc = exc_type and Exception(exc_type)
            # ---- oracle, evaluated while `exc` (traceback, frames, locals) is alive -------------
            leaked = fs.open_handles(owner="lasio")
            for h in leaked:
                problems.append(("C20.leak", "handle #%d %s mode=%s opened by lasio during %s(%s) is still open after "
                                 "the call %s" % (h.hid, h.path, h.mode, call, kind,
                                                  "raised " + type(exc).__name__ if exc is not None else "returned")))
            if caller_stream is not None and caller_stream.closed:
                problems.append(("C20.caller-closed", "caller-supplied stream was closed by %s(%s) (%s)" % (
                    call, kind, type(exc).__name__ if exc is not None else "returned")))
            if las is not None:
                for name, v in vars(las).items():
                    if hasattr(v, "closed") and (hasattr(v, "read") or hasattr(v, "write")) and not v.closed:
                        problems.append(("C20.lasfile-holds-handle", "LASFile.%s is an open file object after %s" % (
                            name, call)))
            outcome = "ok" if exc is None else type(exc).__name__
            nops = fs.seq
            fired = list(fs.fired)
            counts = dict(fs.counts)
            # release what is left so that nothing lingers into the next run
            for h in fs.handles:
                try:
                    fs.faults = []
                    h.top.close()
                except Exception:
                    pass
        del exc
        return outcome, nops, fired, problems, counts

    def run(self, sc):
        import random
        res = Result()
        if sc["fault_mode"] == "single":
            plan = [sc["fault"]]
            o, n, fired, problems, counts = self.execute(sc, sc["fault"])
            res.merge_counts(counts)
            res.count("subruns")
            res.count("outcome:" + o)
            res.events += n
            res.log.append([sc["fault"], o, n, fired])
            for oracle, msg in problems:
                res.violate(oracle, msg, step=sc["fault"].get("at") if sc["fault"] else 0)
            res.nontrivial = bool(fired) or o != "ok"
            return res
        # clean run
        o, n, fired, problems, counts = self.execute(sc, None)
        res.merge_counts(counts)
        res.count("subruns")
        res.count("clean-outcome:" + o)
        res.count("call:" + sc["call"])
        res.events += n
        res.log.append([0, o, n, []])
        for oracle, msg in problems:
            res.violate(oracle, msg, step=0)
        if o != "ok":
            res.nontrivial = True
            res.count("input-induced-failure:%s:%s" % (sc["call"].split("_")[0], sc["input"]))
        ks = list(range(1, n + 1))
        if len(ks) > sc["cap"]:
            rng = random.Random(sc["fault_seed"])
            ks = sorted(rng.sample(ks, sc["cap"]))
            res.count("sweeps-sampled")
        else:
            res.count("sweeps-complete")
        for k in ks:
            f = {"at": k, "errno": sc["errno"]}
            o2, n2, fired2, problems2, counts2 = self.execute(sc, f)
            res.merge_counts(counts2)
            res.count("subruns")
            res.count("faulted-outcome:" + o2)
            res.events += n2
            res.log.append([k, o2, n2, fired2])
            if fired2:
                res.nontrivial = True
                if o2 == "ok":
                    res.count("fault-masked-by-lasio")
            for oracle, msg in problems2:
                if not any(v["oracle"] == oracle for v in res.violations):
                    res.violate(oracle, msg + " [fault at op %d: %s]" % (k, fired2), step=k)
        return res

    def simplify(self, sc):
        if sc["fault_mode"] == "sweep":
            r = self.run(dict(sc))
            for v in r.violations:
                c = dict(sc)
                c["fault_mode"] = "single"
                c["fault"] = {"at": v["step"], "errno": sc["errno"]} if v["step"] else None
                yield c
            return
        if sc["policy"] != Policy().to_json():
            c = dict(sc)
            c["policy"] = Policy().to_json()
            yield c
        for key, val in (("n", 1), ("m", 1), ("n", 2), ("m", 2)):
            if sc[key] > val:
                c = dict(sc)
                c[key] = val
                yield c
        if sc["kw"]:
            c = dict(sc)
            c["kw"] = {}
            yield c


PROP = C20()

PROP.rule += (" Strata added while closing seeded changes (DESIGN section 10): "
              'binary caller streams, constructor/function calls, undecodable bytes late in the file, a prior call whose open() failed, descriptor-level os.open/os.read/os.close, a path naming a directory.')
PROP.rule += ' Round 8: file-name suffixes (.gz, .txt, ...), unknown codec / error-handler names, gzip-compressed inputs.'
