"""C13 - duplicate and blank mnemonics: unique session names, originals preserved.

Histories of append / insert / delete / replace on real sections vs a list model, invariants I1-I6 after every
operation; all sequences of length <= 3 over a 4-name alphabet are swept completely on every run; plus reading
generated files with such multisets under mnemonic_case preserve/upper/lower, and a write->read round trip through
the simulated file system after the history."""
import itertools

from .. import docmodel
from ..core import Prop, Result
from ..sectionmachine import (SectionMachine, gen_ops, names_in, suffix_hazard, fresh_sessions, useful,
                              NAMES, NAMES_PLAIN, NAMES_FILE)
from ..simfs import SimFS, Policy

SMALL = ["A", "a", "", "A:1"]
CASEF = {"preserve": lambda x: x, "upper": lambda x: x.upper(), "lower": lambda x: x.lower()}


def file_safe(name):
    return "." not in name and ":" not in name and not name.startswith(("#", "~")) and name == name.strip()


class C13(Prop):
    id = "C13"
    level = "exploration"
    rule = ("scenario = (section kind bare/well/params/curves/version or read-from-generated-file, case normalisation "
            "on/off, operation sequence of append/insert/delete/pop/replace over a small name alphabet with blanks, case "
            "variants and names ending in :<digits>, optional write->read round trip through SimFS with mnemonic_case "
            "preserve/upper/lower); all sequences of length <= 3 over {A,a,'',A:1} x 2 section flavours are enumerated "
            "on every run.  Non-trivial = some useful name was shared by >= 2 items at some point or a blank name "
            "occurred; distinct = distinct event-log digests.")
    assumptions = [
        "rename (item.mnemonic = x) is not one of the operations the statement lists and is not generated",
        "after deletions stale suffixes are allowed (the statement numbers groups only 'after each insertion')",
        "file round trips only use names without '.' or ':' and blank names on lines without a further period "
        "(the statement's own mask)",
    ]
    quick = {"runs": 40000, "wall": 60}
    thorough = {"runs": 400000, "wall": 900}
    hash_sensitive = True

    def predicates_f1(sc, v, params):
        return suffix_hazard(sc.get("_names") or C13.scenario_names(sc))

    predicates = {"suffix_lookalike_name": predicates_f1}

    @staticmethod
    def scenario_names(sc):
        base = []
        if sc["base"]["kind"] == "read":
            for sec in sc["base"]["file"]["sections"].values():
                base += sec
        return names_in(sc["ops"], base)

    # -- generation ----------------------------------------------------------------------------------
    def enumerated(self, tier):
        out = []
        step_ops = []
        for n in SMALL:
            step_ops.append(["append", n])
            step_ops.append(["insert", 0, n])
            step_ops.append(["insert", 1, n])
            step_ops.append(["replace", 0, n, False])
        step_ops += [["del_idx", 0], ["del_idx", -1], ["del_key", 1]]
        for L in ((1, 2, 3, 4) if tier == "thorough" else (1, 2, 3)):
            for seq in itertools.product(step_ops, repeat=L):
                if seq[0][0] not in ("append", "insert"):
                    continue
                for tr in (False, True):
                    out.append({"base": {"kind": "bare", "transforms": tr}, "ops": [list(o) for o in seq],
                                "roundtrip": None, "enum": True})
        return out

    def gen(self, st, tier, index):
        g = st.gen
        r = g.random()
        hazard = g.random() < 0.15
        names = NAMES if hazard else NAMES_PLAIN
        if r < 0.3:
            # read stratum: a generated file with mnemonic multisets in ~W, ~C, ~P
            nm = [n for n in NAMES_FILE]
            secs = {}
            for sec in ("W", "C", "P", "V", "X"):
                k = g.randint(0, 6) if sec in ("W", "C", "P") else g.choice([0, 0, 1, 2, 3])
                pool = g.sample(nm, g.randint(1, 4))
                secs[sec] = [g.choice(pool) for _ in range(k)]
                if sec == "P" and g.random() < 0.12:
                    secs["P2"] = [g.choice(pool) for _ in range(g.randint(1, 4))]
            case = g.choice(["preserve", "upper", "lower"])
            base = {"kind": "read", "file": {"sections": secs, "vers": g.choice([1.2, 2.0])}, "case": case,
                    "transforms": case != "preserve", "section": g.choice(["well", "curves", "params"]),
                    "channel": g.choice(["path", "string", "stream"]), "policy": Policy.draw(st.io).to_json()}
            ops = gen_ops(g, g.randint(0, 6), NAMES_FILE)
            rt = {"case": g.choice(["preserve", "upper", "lower"]), "version": g.choice([None, 1.2, 2.0])} if g.random() < 0.5 else None
            return {"base": base, "ops": ops, "roundtrip": rt}
        kind = g.choice(["bare", "bare", "well", "params", "curves", "version"])
        base = {"kind": kind, "transforms": g.random() < 0.5}
        fileish = kind != "bare" and g.random() < 0.6
        ops = gen_ops(g, g.randint(1, 12), NAMES_FILE if fileish else names)
        rt = None
        if fileish:
            rt = {"case": g.choice(["preserve", "upper", "lower"]), "version": g.choice([None, 1.2, 2.0])}
        return {"base": base, "ops": ops, "roundtrip": rt}

    # -- execution -------------------------------------------------------------------------------------
    def build_read_base(self, sc, res, fs):
        """Render the file from the multisets (independently of lasio's writer) and read it."""
        import lasio
        b = sc["base"]
        f = b["file"]
        lines = docmodel.version_section(f["vers"], "NO")
        lines += [docmodel.hline(n, "", "%d" % (30 + i), "version extra %d" % i) for i, n in enumerate(f["sections"].get("V", []))]
        wextra = [(n, "", "%d" % (10 + i), "well item %d" % i) for i, n in enumerate(f["sections"]["W"])]
        lines += docmodel.well_section(0.0, 1.0, 0.5, -999.25, "M", wextra, version=f["vers"])
        curves = [("DEPT", "M", "", "index")] + [(n, "", "", "curve %d" % i) for i, n in enumerate(f["sections"]["C"])]
        lines += docmodel.curve_section(curves)
        lines += docmodel.param_section([(n, "", "%d" % (20 + i), "param %d" % i) for i, n in enumerate(f["sections"]["P"])])
        if f["sections"].get("P2") is not None:
            # a second ~Parameter block (one per logging run); whatever lasio keeps of the two, the names must stay distinct
            lines += docmodel.param_section([(n, "", "%d" % (60 + i), "run 2 param %d" % i) for i, n in enumerate(f["sections"]["P2"])])
        if f["sections"].get("X"):
            lines += ["~Xtra custom section"] + [docmodel.hline(n, "", "%d" % (40 + i), "custom %d" % i) for i, n in enumerate(f["sections"]["X"])]
        rows = [["%d" % (i * 10 + j) for j in range(len(curves))] for i in range(3)]
        lines += docmodel.data_section(rows)
        text = docmodel.join(lines)
        path = "/simfs/c13/in.las"
        fs.store_text(path, text)
        try:
            if b["channel"] == "path":
                las = lasio.read(path, mnemonic_case=b["case"])
            elif b["channel"] == "string":
                las = lasio.read(text, mnemonic_case=b["case"])
            else:
                fh = fs.open_as_caller(path, "r")
                try:
                    las = lasio.read(fh, mnemonic_case=b["case"])
                finally:
                    fh.close()
        except Exception as e:
            res.violate("C13.read-raised", "reading a file with mnemonics W=%r C=%r P=%r raised %s: %s" % (
                f["sections"]["W"], f["sections"]["C"], f["sections"]["P"], type(e).__name__, str(e).strip().splitlines()[-1][:200] if str(e).strip() else ""))
            return None
        cf = CASEF[b["case"]]
        ci = b["case"] != "preserve"
        expect = {"well": ["STRT", "STOP", "STEP", "NULL"] + f["sections"]["W"],
                  "curves": ["DEPT"] + f["sections"]["C"], "params": f["sections"]["P"],
                  "version": ["VERS", "WRAP"] + f["sections"].get("V", [])}
        if f["sections"].get("X"):
            expect["Xtra custom section"] = f["sections"]["X"]
        if f["sections"].get("P2") is not None:
            del expect["params"]
        # the statement's invariants right after the read, for every header section of the result
        for secname, sec in las.sections.items():
            if isinstance(sec, str):
                continue
            real = list(list.__iter__(sec))
            fold = (lambda x: x.upper()) if sec.mnemonic_transforms else (lambda x: x)
            names_now = [fold(it.mnemonic) for it in real]
            if len(set(names_now)) != len(names_now):
                res.violate("C13.read-sessions", "read(case=%s) ~%s session names %r are not pairwise distinct" % (
                    b["case"], secname, [it.mnemonic for it in real]))
                break
            for i, it in enumerate(real):
                try:
                    got = sec[it.mnemonic]
                except Exception as e:
                    got = e
                if got is not it:
                    res.violate("C13.read-sessions", "read(case=%s) ~%s: name %r does not resolve to item #%d" % (b["case"], secname, it.mnemonic, i))
                    break
        for secname, names in expect.items():
            sec = {"well": las.well, "curves": las.curves, "params": las.params, "version": las.version}.get(secname)
            if sec is None:
                sec = las.sections.get(secname)
                if sec is None or isinstance(sec, str):
                    res.violate("C13.read-originals", "custom section %r missing after the read" % secname)
                    continue
            mapped = [cf(n) for n in names]
            got_o = [it.original_mnemonic for it in sec]
            got_s = [it.mnemonic for it in sec]
            if got_o != mapped:
                res.violate("C13.read-originals", "read(case=%s) ~%s originals %r, expected %r" % (b["case"], secname, got_o, mapped))
            elif got_s != fresh_sessions(mapped, ci):
                res.violate("C13.read-sessions", "read(case=%s) ~%s session names %r, expected %r" % (
                    b["case"], secname, got_s, fresh_sessions(mapped, ci)))
        return las

    def run(self, sc):
        res = Result()
        b = sc["base"]
        fs = SimFS(policy=Policy.from_json(b.get("policy")))
        with fs:
            if b["kind"] == "read":
                las = self.build_read_base(sc, res, fs)
                if res.violations:
                    return res
                m = SectionMachine({"kind": "bare", "transforms": b["transforms"]}, res, check13=True, check15=False)
                m.las = las
                m.kind = b["section"]
                m.s = {"well": las.well, "curves": las.curves, "params": las.params}[b["section"]]
                m.ci = bool(m.s.mnemonic_transforms)
                if m.ci != b["transforms"]:
                    res.violate("C13.read-case-flag", "section read with mnemonic_case=%s has case-insensitive lookup=%r" % (b["case"], m.ci))
                m.M = [{"item": it, "orig": it.original_mnemonic} for it in list.__iter__(m.s)]
                m.nrows = 3
                m.note_shared()
                m.check_c13()
            else:
                m = SectionMachine(b, res, check13=True, check15=False)
            blank_seen = False
            for i, op in enumerate(sc["ops"]):
                try:
                    m.apply(op, i)
                except Exception as e:
                    res.violate("C13.op-raised", "step %d: %r raised %s: %s" % (i, op, type(e).__name__, str(e)[:200]), step=i)
                    break
                res.log.append([i, op[0], [it.mnemonic for it in m.real_items()], [mm["orig"] for mm in m.M]])
                if res.violations:
                    break
            blank_seen = any(mm["orig"].strip() == "" for mm in m.M)
            res.nontrivial = bool(m.ever_shared) or blank_seen
            if m.ever_shared:
                res.count("runs-with-shared-names")
            if blank_seen:
                res.count("runs-with-blank-names")
            if m.deleted_or_replaced and m.ever_shared:
                res.count("runs-with-delete-after-sharing")
            if sc.get("roundtrip") and not res.violations and m.las is not None:
                self.roundtrip(sc, m, res, fs)
        res.events = fs.seq + len(sc["ops"])
        res.merge_counts(fs.counts)
        return res

    def roundtrip(self, sc, m, res, fs):
        import lasio
        rt = sc["roundtrip"]
        las = m.las
        origs = {k: [it.original_mnemonic for it in sec] for k, sec in
                 (("well", las.well), ("curves", las.curves), ("params", las.params), ("version", las.version))}
        if not all(file_safe(n.strip()) for ns in origs.values() for n in ns):
            res.count("roundtrip-skipped-mask")
            return
        path = "/simfs/c13/out.las"
        kw = {}
        if rt["version"] is not None:
            kw["version"] = rt["version"]
        try:
            las.write(path, **kw)
        except Exception as e:
            res.count("roundtrip-skipped-unwritable:" + type(e).__name__)
            return
        after = {k: [it.original_mnemonic for it in sec] for k, sec in
                 (("well", las.well), ("curves", las.curves), ("params", las.params), ("version", las.version))}
        if after != origs:
            res.violate("C13.original-altered", "write() changed original mnemonics: %r -> %r" % (origs, after))
            return
        try:
            back = lasio.read(path, mnemonic_case=rt["case"])
        except Exception as e:
            res.violate("C13.roundtrip-unreadable", "lasio cannot read back its own output: %s: %s" % (type(e).__name__, str(e)[:300]))
            return
        cf = CASEF[rt["case"]]
        ci = rt["case"] != "preserve"
        for k, sec in (("well", back.well), ("curves", back.curves), ("params", back.params), ("version", back.version)):
            want_o = [cf(n.strip()) for n in origs[k]]
            got_o = [it.original_mnemonic for it in sec]
            got_s = [it.mnemonic for it in sec]
            if k == "version":
                # write() substitutes / adds the VERS item in the written copy of ~Version (documented behaviour of
                # the version option, not disambiguation): VERS-named items are left out of the comparison
                keep = [i for i, n in enumerate(got_o) if n.upper() != "VERS"]
                got_o, got_s = [got_o[i] for i in keep], [got_s[i] for i in keep]
                want_o = [n for n in want_o if n.upper() != "VERS"]
            if got_o != want_o:
                res.violate("C13.roundtrip-originals", "~%s originals after write->read(case=%s): %r, expected %r" % (k, rt["case"], got_o, want_o))
                return
            want_s = fresh_sessions(want_o, ci)
            if got_s != want_s:
                res.violate("C13.roundtrip-sessions", "~%s session names after write->read(case=%s): %r, expected %r" % (k, rt["case"], got_s, want_s))
                return
            if not m.deleted_or_replaced and rt["case"] == "preserve" and not m.ci and k == m.kind:
                mem = [it.mnemonic for it in {"well": las.well, "curves": las.curves, "params": las.params, "version": las.version}[k]
                       if not (k == "version" and it.original_mnemonic.upper() == "VERS")]
                if mem != got_s:
                    res.violate("C13.roundtrip-same-names", "~%s in-memory names %r but re-read names %r" % (k, mem, got_s))
                    return
        res.count("roundtrip-done")
        res.log.append(["roundtrip", rt, [it.mnemonic for it in back.curves]])

    def shrink_lists(self, sc):
        paths = [("ops",)]
        if sc["base"]["kind"] == "read":
            for s in ("W", "C", "P", "V", "X"):
                if s in sc["base"]["file"]["sections"]:
                    paths.append(("base", "file", "sections", s))
        return paths

    def simplify(self, sc):
        if sc.get("roundtrip"):
            c = dict(sc)
            c["roundtrip"] = None
            yield c
        if sc["base"].get("policy") and sc["base"]["policy"] != Policy().to_json():
            c = dict(sc)
            c["base"] = dict(sc["base"], policy=Policy().to_json())
            yield c
        if sc["base"]["kind"] not in ("bare", "read"):
            c = dict(sc)
            c["base"] = dict(sc["base"], kind="bare")
            c["roundtrip"] = None
            yield c


PROP = C13()

PROP.rule += (" Strata added while closing seeded changes (DESIGN section 10): "
              "replace by position, moved item objects, repeated ~Parameter blocks, names with '_', '%' and case-quirk letters, np.nan values; invariants also checked right after every read.")
PROP.rule += ' Round 8: slices read between edits.'
