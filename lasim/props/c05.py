"""C05 - every line is attributed to the section whose title precedes it.

Generated documents in which every header line, free-text line and data cell carries a unique tag naming its
section and ordinal; sections in any order after ~V (~A anywhere), title spellings in either case, empty sections,
custom sections, steering names (VERS, WRAP, NULL, DLM) as mnemonics in ~C/~P/custom sections; delivered through
the simulated channels (multi-byte codecs: tell() cookies != character offsets; CRLF/CR; short reads)."""
import copy

import numpy as np

from .. import docmodel
from ..channels import draw_read_channel, read_via
from ..core import Prop, Result
from ..simfs import SimFS, Policy
from ..swarm import neutral_read_kw, fix_kw

SPELL = {
    # word + trailing text, text glued to the letter or word, and (for ~V/~W/~A, whose recognition goes by the letter alone)
    # titles that mention _DATA / _PARAMETER / _DEFINITION
    "V": ["~V", "~Version", "~Version Information", "~VERSION INFORMATION SECTION", "~V ------", "~V------", "~VERSION-INFO", "~VERSION_DEFINITION",
          "~Version Information (see the LOG_PARAMETER block)"],
    "W": ["~W", "~Well", "~Well Information Block", "~WELL INFORMATION", "~W ----------", "~W----", "~WELLINFO", "~Well_Data", "~WELL_PARAMETER",
          "~Well Information - see also the LOG_PARAMETER block"],
    "C": ["~C", "~Curve", "~Curve Information", "~CURVE INFORMATION BLOCK", "~C ------", "~C------", "~CURVEINFO", "~Curve_Information",
          "~CURVE INFORMATION (RUN_1)"],
    "P": ["~P", "~Parameter", "~Parameter Information", "~PARAMETER INFORMATION", "~Params ----", "~P----", "~PARAMETERINFO",
          "~Parameter_Information", "~PARAMETER INFORMATION (RUN_1)"],
    "O": ["~O", "~Other", "~Other Information", "~OTHER", "~O ------", "~O----", "~OTHERINFO"],
    "A": ["~A", "~ASCII", "~Ascii Log Data", "~ASCII LOG DATA", "~A  DEPTH  K1", "~A--------", "~ASCIIDATA", "~Ascii-log-data", "~ASCII_LOG_DATA",
          "~ADATA K0 K1"],
}
CUSTOM = ["~Xtra", "~Zone tops", "~Bit record", "~Tops", "~xtra", "~Remarks area", "~Units table", "~Quality",
          "~TOPS_DATA", "~Mud_database", "~Run_1 info", "~Log_definition", "~zone_data", "~Inclinometry_Datafile", "~Tops_Data"]
PRELUDE = ("~V\nVERS. 2.0 : prelude\nWRAP. NO : prelude\n~W\nNULL. -5 : prelude null\nPREW. earlier : prelude item\n~C\nPD.M : prelude\nPA.U : prelude\n"
           "~P\nPREP. 1 : prelude\n~O\nprelude remark one\nprelude remark two\n~A\n1 2\n3 4\n")
STEER = [["NULL", "", "1002", "tag steer"], ["WRAP", "", "YES", "tag steer"], ["DLM", "", "COMMA", "tag steer"],
         ["VERS", "", "1.2", "tag steer"], ["NULL", "", "2002", "tag steer"], ["DLM", "", "TAB", "tag steer"]]


def lower_title(t):
    return t[0] + t[1:].lower()


def build(sc):
    """-> (text, expectation)"""
    vers = sc["vers"]
    lines = []
    exp = {"sections": {}, "order": []}
    for sec in sc["sections"]:
        k = sec["kind"]
        lines.append(sec.get("indent", "") + sec["title"])       # '~' is the first non-blank character of a title line
        if k in ("V", "W", "C", "P", "X"):
            items = [list(it) for it in sec["items"]]
            lines += docmodel.render_items(items, k, vers)
            name = {"V": "Version", "W": "Well", "C": "Curves", "P": "Parameter"}.get(k) or sec["title"][1:]
            if not (k == "C" and not items):      # no declared curves: the data columns become unnamed curves
                exp["sections"][name] = ["items", items]
        elif k == "O":
            lines += list(sec["text"])
            exp["sections"]["Other"] = ["text", "\n".join(sec["text"])]
        elif k == "A":
            for i in range(sc["rows"]):
                lines.append(" " + (" " * sc.get("pad", 1)).join("%d" % (i * 1000 + j + 1) for j in range(sc["cols"])) + " " * (sc.get("pad", 1) - 1))
        if sec.get("stray"):
            lines.append(sec["stray"])            # a line lasio cannot parse, as the very last line of the section
        else:
            for n in sec.get("blank_after", []):
                lines.append(n)
    if sc.get("ctrlz") and sc["sections"][-1]["kind"] != "O":      # inside ~Other every line is content
        lines.append(sc["ctrlz"])                # DOS end-of-file mark on a line of its own, whatever the last section is
    return docmodel.join(lines, "\n", sc.get("final_newline", True)), exp


class C05(Prop):
    id = "C05"
    level = "exploration"
    rule = ("scenario = ~V first, then a random permutation of ~W, ~C, ~P, ~O and 0..3 custom sections with ~A at a random "
            "place after ~V; title spellings (letter only, word, trailing text, dashes) in upper or lower case; section "
            "sizes 0..4; mnemonics in ~C/~P/custom sections may be the steering names VERS/WRAP/NULL/DLM with values that "
            "would change parsing if honoured; every line is tagged with its section and ordinal, data cell (i,j) = "
            "i*1000+j+1; delivered through channel x codec (incl. utf-16) x newline (LF/CRLF/CR) x delivery policy, both "
            "engines.  Non-trivial = the order differs from V,W,C,P,O,A or a lower-case title or a steering name or a "
            "custom section occurs; distinct = distinct event-log digests.")
    assumptions = [
        "expected placement: ~V -> sections['Version'], ~W -> 'Well', ~C -> 'Curves', ~P -> 'Parameter', ~O -> 'Other' "
        "(in either case, as the documentation tabulates), custom sections under their own title without the tilde",
        "mnemonic_case='preserve' is used so that tags compare literally; values are compared numerically when numeric",
        "section titles of custom sections start with a letter other than V/W/C/P/O/A in either case (titles with '_', '_DATA', '_Data' included: the file declares VERS 1.2 or 2.0)",
    ]
    quick = {"runs": 40000, "wall": 60}
    thorough = {"runs": 300000, "wall": 900}

    def gen(self, st, tier, index):
        g = st.gen
        vers = g.choice([1.2, 2.0])
        lower = g.random() < 0.25
        steer = g.random() < 0.3
        cols = g.randint(1, 4)
        rows = g.randint(1, 5)

        def title(k):
            t = g.choice(SPELL[k])
            return lower_title(t) if lower and g.random() < 0.6 else t
        secs = []
        n_w, n_p = g.randint(0, 4), g.randint(0, 4)
        w_items = [["STRT", "M", "1", "tag W#strt"], ["STOP", "M", "%d" % ((rows - 1) * 1000 + 1), "tag W#stop"],
                   ["STEP", "M", "1000", "tag W#step"], ["NULL", "", "-999.25", "tag W#null"]]
        w_items += [["W%d" % i, "", "w%dval" % i, "tag W#%d" % i] for i in range(n_w)]
        if g.random() < 0.15:
            w_items = w_items[:4] if g.random() < 0.5 else []
        c_items = [["K%d" % j, "U%d" % j, "", "tag C#%d" % j] for j in range(cols)]
        if g.random() < 0.1:
            c_items = []
        p_items = [["P%d" % i, "", "%d" % (40 + i), "tag P#%d" % i] for i in range(n_p)]
        if steer and g.random() < 0.7:
            p_items.insert(g.randint(0, len(p_items)), list(g.choice(STEER)))
        o_text = [("# " if g.random() < 0.25 else "") + "tag O#%d free text with 1 2 3" % i for i in range(g.randint(0, 4))]
        if o_text and g.random() < 0.15:
            # characters at which str.splitlines() breaks but a file's line iteration does not (page breaks, separators)
            k = g.randrange(len(o_text))
            o_text[k] = o_text[k].replace(" free ", g.choice([" page\x0cbreak ", " vt\x0btab ", " fs\x1cgs\x1drs\x1eus ", " a\x0c\x0cb "]))
        pool = [{"kind": "W", "title": title("W"), "items": w_items}, {"kind": "C", "title": title("C"), "items": c_items},
                {"kind": "P", "title": title("P"), "items": p_items}, {"kind": "O", "title": title("O"), "text": o_text}]
        ctitles = g.sample(CUSTOM, g.choice([0, 0, 1, 1, 2, 3]))
        first_letters = set()
        for ci, ct in enumerate(ctitles):
            if ct[1].upper() in first_letters:
                continue
            first_letters.add(ct[1].upper())
            items = [["X%d_%d" % (ci, i), "", "%d" % (70 + i), "tag X%d#%d" % (ci, i)] for i in range(g.randint(0, 3))]
            if steer and g.random() < 0.5:
                items.insert(g.randint(0, len(items)), list(g.choice(STEER)))
            pool.append({"kind": "X", "title": ct, "items": items})
        if g.random() < 0.35:
            pass            # canonical order W,C,P,O,(custom)
        else:
            g.shuffle(pool)
        a = {"kind": "A", "title": title("A")}
        pos = len(pool) if g.random() < 0.5 else g.randint(0, len(pool))
        pool.insert(pos, a)
        v = {"kind": "V", "title": title("V"), "items": [["VERS", "", "%.1f" % vers, "tag V#vers"], ["WRAP", "", "NO", "tag V#wrap"]]}
        if g.random() < 0.3:
            v["items"].append(["DLM", "", "SPACE", "tag V#dlm"])
        if g.random() < 0.2:
            for s in pool:
                if s["kind"] != "O" and g.random() < 0.3:      # inside ~Other every line is content
                    s["blank_after"] = [g.choice(["", "# comment", "   "])]
        stray = False
        if g.random() < 0.08:
            # read with ignore_header_errors=True: a stray unparsable line closes one or two header sections
            for s0 in g.sample([v] + pool, g.randint(1, 2)):
                if s0["kind"] in ("V", "W", "P", "X"):
                    s0["stray"] = g.choice(["stray words without separators", "end of block", "xx"])
                    stray = True
        if g.random() < 0.08:
            for s0 in [v] + pool:
                if g.random() < 0.5:
                    s0["indent"] = g.choice([" ", "  ", "\t"])
        return {"ctrlz": g.choice(["\x1a", " \x1a"]) if g.random() < 0.05 else None,
                "pad": g.choice([4100, 4100, 8200]) if g.random() < 0.012 else 1,     # physical data lines longer than 4096 / 8192 characters
                "stray": stray, "vers": vers, "sections": [v] + pool, "cols": cols, "rows": rows, "final_newline": g.random() < 0.7,
                "nkw": neutral_read_kw(g, exclude=("ignore_data",)), "engine": g.choice(["numpy", "normal"]), "ignore_data": g.random() < 0.15, "case": g.choice(["preserve", "preserve", "upper", "lower"]),
                "channel": draw_read_channel(g, ascii_only=True),
                # the reading LASFile object has read another file (with V, W, C, P, O, A sections) before
                "prelude": g.random() < 0.08 and all(k in [s0["kind"] for s0 in pool] for k in "WCPO"),
                "policy": Policy.draw(st.io).to_json()}

    def run(self, sc):
        res = Result()
        text, exp = build(sc)
        fs = SimFS(policy=Policy.from_json(sc["policy"]))
        with fs:
            try:
                kw = fix_kw(dict(sc.get("nkw") or {}, engine=sc["engine"], mnemonic_case=sc.get("case", "preserve")))
                if sc.get("ignore_data"):
                    kw["ignore_data"] = True
                if sc.get("stray"):
                    kw["ignore_header_errors"] = True
                into = None
                if sc.get("prelude"):
                    import io
                    import lasio
                    into = lasio.LASFile()
                    into.read(io.StringIO(PRELUDE))
                    res.count("read-into-used-object")
                las = read_via(fs, text, sc["channel"], kw, tag="c05", into=into)
            except Exception as e:
                res.events = fs.seq
                res.violate("C05.unreadable", "conformant document could not be read: %s: %s | titles=%r" % (
                    type(e).__name__, str(e).strip().splitlines()[-1][:200] if str(e).strip() else "", [s["title"] for s in sc["sections"]]))
                return res
        res.events = fs.seq
        res.merge_counts(fs.counts)
        kinds = [s["kind"] for s in sc["sections"]]
        titles = [s["title"] for s in sc["sections"]]
        res.nontrivial = (kinds != ["V", "W", "C", "P", "O", "A"]) or any(t[1].islower() for t in titles)
        res.log.append([titles, sc["engine"], sc["channel"], sc["policy"]["kind"]])
        # header sections
        for name, want in exp["sections"].items():
            if name not in las.sections:
                res.violate("C05.section-missing", "section %r is missing; keys=%r titles=%r" % (name, list(las.sections.keys()), titles))
                return res
            got = las.sections[name]
            if want[0] == "text":
                if not isinstance(got, str) or got != want[1]:
                    res.violate("C05.other-text", "~Other text %r, expected %r (titles=%r)" % (got if isinstance(got, str) else type(got).__name__, want[1], titles))
                    return res
                continue
            if isinstance(got, str):
                res.violate("C05.items", "section %r was read as text, expected items (titles=%r)" % (name, titles))
                return res
            gi = [[it.original_mnemonic, it.unit, it.value, it.descr] for it in got]
            if len(gi) != len(want[1]):
                res.violate("C05.items", "section %r has items %r, expected %r (titles=%r)" % (
                    name, [x[0] for x in gi], [x[0] for x in want[1]], titles))
                return res
            cf = {"upper": str.upper, "lower": str.lower}.get(sc.get("case", "preserve"), str)
            for x, y in zip(gi, want[1]):
                ok = x[0] == cf(y[0]) and x[1] == y[1] and x[3] == y[3] and self.veq(x[2], y[2])
                if not ok:
                    res.violate("C05.items", "section %r item %r read as %r (titles=%r)" % (name, y, x, titles))
                    return res
        extra = [k for k in las.sections.keys() if k not in exp["sections"] and k not in ("Version", "Well", "Curves", "Parameter", "Other")]
        if extra:
            res.violate("C05.extra-section", "unexpected sections %r (titles=%r)" % (extra, titles))
            return res
        # data
        if sc.get("ignore_data"):
            res.count("header-only-reads")
            return res
        rows, cols = sc["rows"], sc["cols"]
        try:
            data = las.data
        except Exception as e:
            res.violate("C05.data", "las.data raised %s (titles=%r)" % (type(e).__name__, titles))
            return res
        want = np.array([[i * 1000 + j + 1 for j in range(cols)] for i in range(rows)], dtype=float)
        if data.shape != want.shape or data.dtype.kind != "f" or not np.array_equal(data, want):
            res.violate("C05.data", "data %r, expected %r (titles=%r)" % (np.asarray(data).tolist()[:3], want.tolist()[:3], titles))
        return res

    @staticmethod
    def veq(got, want):
        try:
            return float(got) == float(want)
        except (TypeError, ValueError):
            return str(got) == str(want)

    def shrink_lists(self, sc):
        paths = [("sections",)]
        for i, s in enumerate(sc["sections"]):
            if "items" in s:
                paths.append(("sections", i, "items"))
            if "text" in s:
                paths.append(("sections", i, "text"))
        return paths

    def valid(self, sc):
        kinds = [s["kind"] for s in sc["sections"]]
        return kinds[:1] == ["V"] and kinds.count("A") == 1 and all(kinds.count(k) <= 1 for k in "VWCPO") and \
            any(it[0] == "VERS" for it in sc["sections"][0]["items"]) and \
            any(it[0] == "WRAP" for it in sc["sections"][0]["items"]) and self.curves_ok(sc)

    @staticmethod
    def curves_ok(sc):
        for s in sc["sections"]:
            if s["kind"] == "C":
                return len(s["items"]) in (0, sc["cols"])
        return True

    def simplify(self, sc):
        for i, s in enumerate(sc["sections"]):
            base = SPELL.get(s["kind"], [s["title"]])[0] if s["kind"] != "X" else s["title"]
            if s["title"] != base and s["kind"] != "X":
                keep_lower = s["title"][1].islower()
                d = copy.deepcopy(sc)
                d["sections"][i]["title"] = lower_title(base) if keep_lower else base
                yield d
            if s["title"][1].islower() and s["kind"] != "X":
                d = copy.deepcopy(sc)
                d["sections"][i]["title"] = s["title"][0] + s["title"][1].upper() + s["title"][2:]
                yield d
            if s.get("blank_after"):
                d = copy.deepcopy(sc)
                d["sections"][i]["blank_after"] = []
                yield d
        for k, lo in (("rows", 1), ("cols", 1)):
            if sc[k] > lo:
                d = copy.deepcopy(sc)
                d[k] = lo
                for s in d["sections"]:
                    if s["kind"] == "C" and s["items"]:
                        s["items"] = s["items"][:d["cols"]]
                    if s["kind"] == "W":
                        for it in s["items"]:
                            if it[0] == "STOP":
                                it[2] = "%d" % ((d["rows"] - 1) * 1000 + 1)
                yield d
        if sc["channel"]["channel"] != "stringio" or sc["channel"]["newline"] != "\n":
            d = copy.deepcopy(sc)
            d["channel"] = {"channel": "stringio", "codec": "utf-8", "explicit": False, "newline": "\n"}
            yield d
        if sc["policy"] != Policy().to_json():
            d = copy.deepcopy(sc)
            d["policy"] = Policy().to_json()
            yield d
        if sc["engine"] != "normal":
            d = copy.deepcopy(sc)
            d["engine"] = "normal"
            yield d


PROP = C05()

PROP.rule += (" Strata added while closing seeded changes (DESIGN section 10): "
              "'#' lines and page-break/separator characters in ~Other, titles glued to the section word or mentioning _DATA/_PARAMETER/_DEFINITION, custom titles with '_', stray unparsable last lines read with ignore_header_errors=True, reads into a used LASFile.")
PROP.rule += ' Round 8: physical data lines longer than 4096 / 8192 characters.'
