"""C17 - pickle and deepcopy reproduce a LASFile exactly, duplicates included.

Serialisation is the library's checkpoint / restart / clone.  The C13/C14 history machines run on one LASFile
(curves + ~Well + ~Parameter histories creating duplicated, blank, case-variant and stale-suffixed mnemonics);
a `copy` operation (pickle protocol 0..5 or copy.deepcopy, applied to the LASFile, to a section or to one item) can
land after any prefix; the copy must be observably equal (canon incl. session and original mnemonics, dtypes, index
unit, write() text), independent (mutating it never changes the original), and - for `restart` - the history
continues on the restored object and keeps agreeing with the models."""
import copy
import io
import pickle

import numpy as np

from .. import canon as C
from .. import docmodel
from ..core import Prop, Result
from ..curvemachine import CurveMachine, gen_curve_ops, NAMES_PLAIN as CNAMES
from ..sectionmachine import SectionMachine, gen_ops, NAMES_PLAIN as SNAMES
from .c19 import corpus_files, CORPUS_DIR

HOWS = ["pickle0", "pickle1", "pickle2", "pickle3", "pickle4", "pickle5", "deepcopy"]


def do_copy(obj, how):
    if how == "deepcopy":
        return copy.deepcopy(obj)
    return pickle.loads(pickle.dumps(obj, int(how[-1])))


def las_canon(las):
    c = C.canon(las, strict=True, with_session=True, data=True)
    c["encoding"] = getattr(las, "encoding", "<absent>")
    ii = las.index_initial
    c["index_initial"] = None if ii is None else C.cdata(ii)
    c["transforms"] = {k: bool(v.mnemonic_transforms) for k, v in las.sections.items() if not isinstance(v, str)}
    c["types"] = {k: type(v).__name__ for k, v in las.sections.items()}
    c["dtypes"] = dtypes_of(las.curves)
    return c


def dtypes_of(items):
    """Exact numpy dtypes (item size included) of the arrays carried by a sequence of items."""
    out = []
    for it in list.__iter__(items):
        d = getattr(it, "data", None)
        out.append(None if d is None else np.asarray(d).dtype.str)
    return out


def write_text(las, kw):
    s = io.StringIO()
    las.write(s, **kw)
    return s.getvalue()


class C17(Prop):
    id = "C17"
    level = "exploration"
    rule = ("scenario = LASFile (fresh or read from a generated document incl. a text column and duplicated/blank/case-"
            "variant mnemonics) + history of curve operations and ~Well/~Parameter section operations, with copy operations "
            "(pickle protocol 0..5 / deepcopy x target LASFile / section / single item x keep|restart) landing after any "
            "prefix.  Non-trivial = a copy was taken in a state with a disambiguated (suffixed or UNKNOWN) mnemonic or with "
            "a text curve; distinct = distinct event-log digests.")
    assumptions = [
        "observable equality = canon(): sections in order, per item session+original mnemonic, unit, value (with Python "
        "type), descr; curve arrays with dtype kind, shape and values (NaN-aware); index_unit; encoding; index_initial; "
        "case-normalisation flag of each section; plus byte-identical write() text",
        "write() comparison is made on the pair directly when the copy is the last operation, otherwise on throw-away "
        "pickle copies of both (write() legitimately refreshes STRT/STOP/STEP in memory)",
    ]
    quick = {"runs": 20000, "wall": 60}
    thorough = {"runs": 200000, "wall": 900}
    hash_sensitive = True

    def gen(self, st, tier, index):
        g = st.gen
        if g.random() < 0.08:
            # example-corpus object: copies only (no further history)
            files = corpus_files()
            ops = [self.gen_copy(g, last=(k == 2)) for k in range(3)]
            for op in ops:
                op[3] = "keep"
            return {"init": {"kind": "corpus", "file": g.choice(files), "case": g.choice(["upper", "preserve", "lower"]),
                             "engine": g.choice(["numpy", "normal"])}, "ops": ops,
                    "wkw": g.choice([{}, {"version": 1.2}, {"version": 2.0}, {"wrap": True}])}
        if g.random() < 0.5:
            init = {"kind": "read", "ncurves": g.randint(2, 4), "nrows": g.randint(1, 4), "engine": g.choice(["numpy", "normal"]),
                    "textcol": g.random() < 0.3, "dups": g.random() < 0.5, "case": g.choice(["upper", "preserve", "lower"])}
        else:
            init = {"kind": "fresh", "nrows": g.randint(1, 4)}
        ops = []
        n = g.randint(1, 10)
        cops = gen_curve_ops(g, n, CNAMES)
        for op in cops:
            ops.append(["curve", op])
            if g.random() < 0.12:
                ops.append(["curve", ["retype", g.randrange(8), g.choice(["int", "numstr", "obj", "bool"]), g.randrange(50)]])
            if g.random() < 0.35:
                sec = g.choice(["well", "params"])
                ops.append(["sec", sec, gen_ops(g, 1, SNAMES)[0]])
            if g.random() < 0.3:
                ops.append(self.gen_copy(g))
        ops.append(self.gen_copy(g, last=True))
        return {"init": init, "ops": ops, "wkw": g.choice([{}, {"version": 1.2}, {"version": 2.0, "wrap": True}, {"fmt": "%.3f"}])}

    def gen_copy(self, g, last=False):
        r = g.random()
        if r < 0.5:
            tgt = "las"
        elif r < 0.8:
            tgt = "sec:" + g.choice(["well", "params", "curves", "version"])
        else:
            tgt = "item:%s:%d" % (g.choice(["well", "params", "curves", "version"]), g.randrange(6))
        then = "restart" if (not last and tgt == "las" or tgt.startswith("sec:")) and g.random() < 0.5 else "keep"
        return ["copy", tgt, g.choice(HOWS), then]

    # -------------------------------------------------------------------------------------------------------
    def build(self, sc, res):
        import lasio
        init = sc["init"]
        cm = CurveMachine({"kind": "fresh", "nrows": init.get("nrows", 3)}, res)
        if init["kind"] == "corpus":
            import os
            las = lasio.read(os.path.join(CORPUS_DIR, init["file"]), engine=init["engine"], mnemonic_case=init["case"])
            cm.las = las
            cm.L = [{"orig": c.original_mnemonic, "unit": c.unit, "value": c.value, "descr": c.descr, "data": np.array(c.data, copy=True)} for c in las.curves]
            cm.rows = len(las.curves[0].data) if len(las.curves) else 0
        if init["kind"] == "read":
            nc, nr = init["ncurves"], init["nrows"]
            names = ["DEPT"] + ["C%d" % j for j in range(1, nc)]
            if init.get("dups") and nc >= 3:
                names[2] = names[1]
            if init.get("dups") and nc >= 4:
                names[3] = ""

            def cell(i, j):
                if init.get("textcol") and j == nc - 1:
                    return "txt%d" % i
                return "%.4f" % (i * 0.5 if j == 0 else (i * 10 + j) * 1.25)
            extra = (("COMP", "", "ACME", "COMPANY"), ("Comp", "", "other", "COMPANY AGAIN"), ("", "", "12", "blank one")) \
                if init.get("dups") else (("COMP", "", "ACME", "COMPANY"),)
            lines = docmodel.simple_doc(nc, nr, cell=cell, curve_names=names, well_extra=extra)
            k = [i for i, ln in enumerate(lines) if ln.startswith("~A")][0]
            lines[k:k] = ["~Xtra custom section", docmodel.hline("K1", "", "11", "custom item"), docmodel.hline("K1", "U", "12", "custom dup")]
            las = lasio.read(io.StringIO(docmodel.join(lines)), engine=init["engine"], mnemonic_case=init["case"])
            cm.las = las
            cm.rows = nr
            cm.L = [{"orig": c.original_mnemonic, "unit": c.unit, "value": c.value, "descr": c.descr,
                     "data": None if c.data.dtype.kind not in "fiu" else np.array(c.data, copy=True)} for c in las.curves]
            for m, c in zip(cm.L, las.curves):
                if m["data"] is None:
                    m["data"] = np.array(c.data, copy=True)
        sms = {k: SectionMachine({"kind": k}, res, check13=False, check15=False, las=cm.las) for k in ("well", "params")}
        return cm, sms

    def rebind(self, cm, sms, newlas):
        cm.las = newlas
        for k, sm in sms.items():
            sm.las = newlas
            sm.s = {"well": newlas.well, "params": newlas.params}[k]
            sm.M = [{"item": it, "orig": m["orig"]} for it, m in zip(list.__iter__(sm.s), sm.M)]

    def run(self, sc):
        res = Result()
        try:
            cm, sms = self.build(sc, res)
        except Exception as e:
            if sc["init"]["kind"] == "corpus":
                res.skipped = "corpus file unreadable"
                return res
            raise
        if sc["init"]["kind"] == "corpus":
            res.count("corpus-objects")
        nops = len(sc["ops"])
        for i, op in enumerate(sc["ops"]):
            try:
                if op[0] == "curve":
                    cm.apply(op[1], i)
                elif op[0] == "sec":
                    sms[op[1]].apply(op[2], i)
                else:
                    self.copy_op(sc, cm, sms, op, i, res, last=(i == nops - 1))
            except Exception as e:
                res.violate("C17.op-raised", "step %d: %r raised %s: %s" % (i, op, type(e).__name__, str(e)[:300]), step=i)
            # C14/C13 model violations before any restart are not C17's business; after a restart they are
            for v in res.violations:
                if not v["oracle"].startswith("C17."):
                    v["oracle"] = "C17.history-after-restart" if res.counts.get("restarts", 0) else "C17.skip"
            if any(v["oracle"] == "C17.skip" for v in res.violations):
                res.violations = []
                res.skipped = "model violation before any copy (not C17's business)"
                break
            if res.violations:
                break
            res.log.append([i, op[0], op[1] if op[0] != "curve" else op[1][0], cm.sessions(),
                            [it.mnemonic for it in cm.las.well], [it.mnemonic for it in cm.las.params]])
        res.events = nops
        return res

    def target(self, las, tgt):
        if tgt == "las":
            return las
        parts = tgt.split(":")
        sec = {"well": las.well, "params": las.params, "curves": las.curves, "version": las.version}[parts[1]]
        if parts[0] == "sec":
            return sec
        items = list(list.__iter__(sec))
        if not items:
            return None
        return items[int(parts[2]) % len(items)]

    def copy_op(self, sc, cm, sms, op, step, res, last):
        _, tgt, how, then = op
        las = cm.las
        obj = self.target(las, tgt)
        if obj is None:
            res.count("copy-skipped-empty")
            return
        res.count("copy:%s:%s" % (tgt.split(":")[0], how))
        cp = do_copy(obj, how)
        if type(cp) is not type(obj):
            res.violate("C17.equal", "step %d: %s of %s has type %s, original %s" % (step, how, tgt, type(cp).__name__, type(obj).__name__), step)
            return
        interesting = False
        if tgt == "las":
            a, b = las_canon(las), las_canon(cp)
            interesting = any(it.mnemonic != it.original_mnemonic for sec in las.sections.values() if not isinstance(sec, str) for it in sec) \
                or any(np.asarray(c.data).dtype.kind not in "fiu" for c in las.curves)
            if a != b:
                res.violate("C17.equal", "step %d: %s of the LASFile differs: %s" % (step, how, "; ".join(C.diff(a, b))), step)
                return
            self.compare_write(sc, las, cp, how, step, res, last)
            if res.violations:
                return
            # isolation: mutate the copy, the original must not change
            before = las_canon(las)
            self.mutate_las(cp)
            after = las_canon(las)
            if before != after:
                res.violate("C17.isolation", "step %d: mutating the %s copy changed the original: %s" % (
                    step, how, "; ".join(C.diff(before, after))), step)
                return
            if then == "restart":
                cp2 = do_copy(las, how)
                self.rebind(cm, sms, cp2)
                res.count("restarts")
        elif tgt.startswith("sec:"):
            a = [C.csection(obj, strict=True, data=True), bool(obj.mnemonic_transforms), dtypes_of(obj)]
            b = [C.csection(cp, strict=True, data=True), bool(getattr(cp, "mnemonic_transforms", None)), dtypes_of(cp)]
            interesting = any(it.mnemonic != it.original_mnemonic for it in obj)
            if a != b:
                res.violate("C17.equal", "step %d: %s of section %s differs: %s" % (step, how, tgt, "; ".join(C.diff(a, b))), step)
                return
            before = las_canon(las)
            for it in list.__iter__(cp):
                it.value = "mutated"
                it.unit = "MUT"
                if hasattr(it, "data") and it.data is not None and np.asarray(it.data).size and np.asarray(it.data).dtype.kind == "f":
                    it.data[0] = -12345.0
            cp.append(type(cp[0])("ADDED") if len(cp) else __import__("lasio").HeaderItem("ADDED"))
            after = las_canon(las)
            if before != after:
                res.violate("C17.isolation", "step %d: mutating the %s copy of %s changed the original: %s" % (
                    step, how, tgt, "; ".join(C.diff(before, after))), step)
                return
            if then == "restart" and tgt in ("sec:well", "sec:params"):
                k = tgt.split(":")[1]
                cp2 = do_copy(obj, how)
                if k == "well":
                    las.well = cp2
                else:
                    las.params = cp2
                self.rebind(cm, sms, las)
                res.count("restarts")
        else:
            a = C.citem(obj, strict=True)
            b = C.citem(cp, strict=True)
            if hasattr(obj, "data") and obj.data is not None:
                a["data"] = C.cdata(obj.data)
                b["data"] = C.cdata(cp.data) if getattr(cp, "data", None) is not None else None
                a["dtype"], b["dtype"] = dtypes_of([obj]), dtypes_of([cp])
            interesting = obj.mnemonic != obj.original_mnemonic
            if a != b:
                res.violate("C17.equal", "step %d: %s of item %s differs: %s" % (step, how, tgt, "; ".join(C.diff(a, b))), step)
                return
            before = las_canon(las)
            cp.value = "mutated"
            cp.mnemonic = "RENAMED"
            if hasattr(cp, "data") and cp.data is not None and np.asarray(cp.data).size and np.asarray(cp.data).dtype.kind == "f":
                cp.data[0] = -12345.0
            if las_canon(las) != before:
                res.violate("C17.isolation", "step %d: mutating the %s copy of %s changed the original" % (step, how, tgt), step)
        if interesting:
            res.nontrivial = True
            res.count("copies-in-interesting-state")

    def mutate_las(self, cp):
        import lasio
        for sec in (cp.version, cp.well, cp.params, cp.curves):
            for it in list.__iter__(sec):
                it.value = "mutated"
                it.descr = "mutated"
        cp.well.append(lasio.HeaderItem("ADDED", "", 1, "added"))
        cp.params.append(lasio.HeaderItem("ADDED", "", 1, "added"))
        for c in list.__iter__(cp.curves):
            d = np.asarray(c.data)
            if d.size and d.dtype.kind == "f":
                c.data[0] = -12345.0
        if len(cp.curves):
            cp.curves[0].mnemonic = "RENAMED"
            cp.delete_curve(ix=len(cp.curves) - 1)
        cp.other = "mutated"
        cp.index_unit = "mutated"
        if cp.index_initial is not None and cp.index_initial.size:
            cp.index_initial[0] = -1.0

    def compare_write(self, sc, las, cp, how, step, res, last):
        kw = dict(sc.get("wkw") or {})
        if last:
            x, y = las, cp
        else:
            x, y = pickle.loads(pickle.dumps(las, 4)), pickle.loads(pickle.dumps(cp, 4))
        try:
            t1 = write_text(x, kw)
        except Exception as e:
            res.count("write-skipped-unwritable:" + type(e).__name__)
            return
        try:
            t2 = write_text(y, kw)
        except Exception as e:
            res.violate("C17.write", "step %d: the original writes but the %s copy raises %s: %s" % (step, how, type(e).__name__, str(e)[:200]), step)
            return
        res.count("write-compared")
        if t1 != t2:
            l1, l2 = t1.splitlines(), t2.splitlines()
            d = [(p, q) for p, q in zip(l1, l2) if p != q][:2]
            res.violate("C17.write", "step %d: write() text of the %s copy differs: %r (lines %d vs %d)" % (step, how, d, len(l1), len(l2)), step)

    def shrink_lists(self, sc):
        return [("ops",)]

    def valid(self, sc):
        return any(op[0] == "copy" for op in sc["ops"])

    def simplify(self, sc):
        import copy as _c
        if sc["init"]["kind"] == "corpus":
            return
        if sc["init"]["kind"] == "read":
            for k, v in (("dups", False), ("textcol", False), ("case", "upper"), ("engine", "normal")):
                if sc["init"].get(k) not in (v, None):
                    d = _c.deepcopy(sc)
                    d["init"][k] = v
                    yield d
            d = _c.deepcopy(sc)
            d["init"] = {"kind": "fresh", "nrows": sc["init"]["nrows"]}
            yield d
        if sc.get("wkw"):
            d = _c.deepcopy(sc)
            d["wkw"] = {}
            yield d
        for i, op in enumerate(sc["ops"]):
            if op[0] == "copy" and op[3] == "restart":
                d = _c.deepcopy(sc)
                d["ops"][i][3] = "keep"
                yield d


PROP = C17()

PROP.rule += (" Strata added while closing seeded changes (DESIGN section 10): "
              'retyped curves, exact dtypes, np.nan header values, moved item objects.')
