"""C12 - writer options change presentation only, never content (1.2 <-> 2.0 included).

The same readable input is loaded twice (two fresh objects) and written with two writer configurations drawn from the
knob swarm with equal numeric precision; both outputs are stored in the simulated file system and read back through
drawn channels; the two results must agree except for the VERS and WRAP items themselves."""
import copy
import random
import re

from .. import canon as C
from .. import docmodel
from ..channels import read_via, write_via
from ..core import Prop, Result
from ..simfs import SimFS, Policy
from .c11 import corpus_bytes, mutate_lines, ODD_UNITS, null_unusable
from .c19 import corpus_files

KNOBS = {
    "version": [None, 1.2, 2.0],
    "wrap": [None, True, False],
    "len_numeric_field": [None, None, -1, 14, 20],
    "spacer": [" ", " ", "  ", "   "],
    "lhs_spacer": [" ", "", "   "],
    "data_width": [79, 79, 40, 120, 250],
    "header_width": [60, 20, 90],
    "data_section_header": ["~ASCII", "~A", "~Ascii Log Data"],
    "mnemonics_header": [False, False, True],
}
FMTS = [None, None, "%.5f", "%.3f", "%.8f", "%.6e", "%.10g"]
DEFAULTS = {"version": None, "wrap": None, "len_numeric_field": None, "spacer": " ", "lhs_spacer": " ", "data_width": 79,
            "header_width": 60, "data_section_header": "~ASCII", "mnemonics_header": False}


def draw_cfg(g):
    cfg = {}
    for k, vals in KNOBS.items():
        v = g.choice(vals)
        if v != DEFAULTS[k]:
            cfg[k] = v
    return cfg


def mask_vers_wrap(c):
    c = copy.deepcopy(c)
    for name, sec in c["sections"]:
        if name == "Version" and sec[0] == "items":
            sec[1] = [it for it in sec[1] if str(it["orig"]).upper() not in ("VERS", "WRAP")]
    return c


HYPHEN_NOTE = " [a hyphenated text cell was written into a wrapped data section in which some physical line carries no hyphen]"


def hyphenless_note(text):
    """Harness-side observation of the written text (not of what lasio made of it): a wrapped output that holds a
    non-numeric token with a digit-hyphen-digit run and at least one data line without any hyphen."""
    lines = text.replace("\r\n", "\n").split("\n")
    wrapped = any(ln.strip().upper().startswith("WRAP") and "YES" in ln.upper().split(":")[0] for ln in lines[:12])
    if not wrapped:
        return ""
    start = None
    for i, ln in enumerate(lines):
        if ln.strip().upper().startswith("~A"):
            start = i
    if start is None:
        return ""
    data = [ln for ln in lines[start + 1:] if ln.strip() and not ln.strip().startswith("#")]
    has_text = False
    for ln in data:
        for tok in ln.split():
            if re.search(r"\d-\d", tok):
                try:
                    float(tok)
                except ValueError:
                    has_text = True
    if has_text and any("-" not in ln for ln in data):
        return HYPHEN_NOTE
    return ""


class C12(Prop):
    id = "C12"
    level = "exploration"
    rule = ("scenario = readable input (example-corpus file as stored bytes, generated document, textual header mutations of "
            "both) x a PAIR of writer configurations over version 1.2/2.0/None, wrap, len_numeric_field, spacer, lhs_spacer, "
            "data_width, header_width, data_section_header, mnemonics_header with one common numeric format; each output is "
            "read back through a drawn channel/codec/newline/delivery policy.  Non-trivial = the two configurations differ in "
            "version or wrap or at least two other knobs; distinct = distinct event-log digests.")
    assumptions = [
        "equal precision = the same fmt/column_fmt in both configurations",
        "the input is loaded twice so that each configuration writes a fresh object (write() refreshes STRT/STOP/STEP and "
        "replaces the WRAP item in memory)",
        "inputs lasio cannot read, or cannot write with one of the two configurations, are skipped and counted",
        "data_width is raised to fit the longest formatted field (documented precondition of wrapping)",
    ]
    quick = {"runs": 1800, "wall": 60}
    thorough = {"runs": 100000, "wall": 900}

    def pred_colon(sc, v, params):
        """known finding: a ~Well value or description of the input contains a colon (1.2 and 2.0 layouts then parse differently)"""
        lines = C12.input_lines(sc)
        if lines is None:
            return False
        cur = None
        for ln in lines:
            s = ln.strip()
            if s.startswith("~"):
                cur = s[1:2].upper()
            elif cur == "W" and s and not s.startswith("#") and s.count(":") >= 2:
                return True
        return False

    def pred_las3(sc, v, params):
        src = sc["src"]
        if src["kind"] == "corpus":
            return src["file"].startswith("3.0/")
        return any(ln.strip().upper().startswith("VERS") and "3.0" in ln for ln in src.get("lines", []))

    def pred_quoted(sc, v, params):
        lines = C12.input_lines(sc) or []
        in_data = False
        for ln in lines:
            if ln.strip().startswith("~"):
                in_data = ln.strip()[:2].upper() == "~A"
            elif in_data and ('"' in ln or "'" in ln):
                return True
        return False

    def pred_null(sc, v, params):
        return null_unusable(C12.input_lines(sc) or [])

    def pred_hyphen(sc, v, params):
        """known finding: run-on(-) substitution splits hyphenated text cells unless every sniffed line holds a hyphen;
        a wrapped output can put such a cell on a different physical line than the other values of its row"""
        return HYPHEN_NOTE in v["msg"]

    predicates = {"wrapped_hyphenated_text": pred_hyphen, "well_field_with_colon": pred_colon, "las3_input": pred_las3, "quoted_text_cells": pred_quoted,
                  "empty_null_value": pred_null}

    @staticmethod
    def input_lines(sc):
        src = sc["src"]
        if src["kind"] == "corpus":
            try:
                lines = corpus_bytes(src["file"]).decode("latin-1").replace("\r\n", "\n").split("\n")
            except Exception:
                return None
        else:
            lines = list(src["lines"])
        if src.get("mutate") is not None:
            lines = mutate_lines(random.Random(src["mutate"]), lines)
        return lines

    def gen(self, st, tier, index):
        g = st.gen
        files = corpus_files()
        if index < len(files):
            src = {"kind": "corpus", "file": files[index], "mutate": None}
        elif g.random() < 0.4:
            src = {"kind": "corpus", "file": g.choice(files), "mutate": g.randrange(1 << 30) if g.random() < 0.5 else None}
        else:
            ncur = g.choice([None, None, 8, 14, 15, 21, 22, 28, 29])
            cell = None
            if g.random() < 0.15:
                # a text column of hyphenated tokens (dates, lot numbers); optionally every number negative so that
                # every physical line of a folded row still carries a hyphen
                ncur = ncur if ncur is not None else g.randint(2, 5)
                jt, neg = g.randrange(1, max(2, ncur)), g.random() < 0.5
                style = g.choice(["2018-05-%02d", "%d-34", "7-%d-1", "silty-sand-%d", "fine-grained-lime-stone-%d"])

                def cell(i, j, jt=jt, neg=neg, style=style):
                    if j == jt:
                        return style % (10 + i)
                    return "%.4f" % (i * 0.5 if j == 0 else (i * 10 + j) * (-1.25 if neg else 1.25))
            doc = docmodel.std_doc(g, custom=g.choice([0, 0, 1]), wrap=g.random() < 0.2 and cell is None, ncurves=ncur, cell=cell,
                                   vers=1.0 if g.random() < 0.06 else None)      # LAS 1.0 shares the 1.2 ~Well layout
            if not doc["wrap"] and g.random() < 0.12:
                for sec in doc["sections"]:
                    if sec["kind"] == "V":
                        for it in sec["items"]:
                            if it[0] == "WRAP":
                                it[2] = g.choice(["No", "no", "Yes", "yes"])     # lasio honours only the spelling YES
            if g.random() < 0.3:
                for sec in doc["sections"]:
                    if sec["kind"] == "C" and len(sec["items"]) > 1:
                        sec["items"][g.randrange(len(sec["items"]))][1] = g.choice(ODD_UNITS[:2] + ["M", "US/F"])
            if g.random() < 0.3:
                for sec in doc["sections"]:
                    if sec["kind"] == "W":
                        for it in sec["items"][:4]:
                            if g.random() < 0.5:
                                it[0] = it[0].lower() if g.random() < 0.5 else it[0].capitalize()
            if g.random() < 0.2:
                # ~Well items whose description is itself a number (year, run number), with and without a unit
                for sec in doc["sections"]:
                    if sec["kind"] == "W":
                        sec["items"].append(["EGL", g.choice(["M", "FT", ""]), g.choice(["230.5", "0", "12"]), g.choice(["1985", "2", "3.5"])])
                        if g.random() < 0.5:
                            sec["items"].append(["RUN", g.choice(["", "M"]), "ONE", "1"])
            if g.random() < 0.12:
                # terse ~Well: few items, short or empty descriptions (the widest field of the section is then a value)
                for sec in doc["sections"]:
                    if sec["kind"] == "W":
                        sec["items"] = sec["items"][:g.choice([4, 4, 5])]
                        for it in sec["items"]:
                            it[3] = g.choice(["", "", "S", "d"])
            src = {"kind": "lines", "lines": docmodel.render_doc(doc), "mutate": g.randrange(1 << 30) if g.random() < 0.4 else None}
        fmt = g.choice(FMTS)
        a, b = draw_cfg(g), draw_cfg(g)
        if g.random() < 0.5:
            a["version"], b["version"] = g.choice([(1.2, 2.0), (2.0, 1.2)])
        if g.random() < 0.3:
            a["wrap"], b["wrap"] = g.choice([(True, False), (False, True)])
        for c in (a, b):
            if fmt:
                c["fmt"] = fmt
        chans = []
        for _ in range(2):
            codec = g.choice(["utf-8", "utf-8", "utf-16", "utf-8-sig"])
            chans.append({"out": g.choice(["path", "stream", "stringio"]), "codec": codec,
                          "in": {"channel": g.choice(["path", "Path", "stream", "stringio", "string"]), "codec": codec, "explicit": True,
                                 "newline": g.choice(["\n", "\n", "\r\n"])}})
        return {"src": src, "cfgs": [a, b], "chans": chans, "rkw": g.choice([{}, {}, {"engine": "normal"}, {"mnemonic_case": "preserve"}, {"mnemonic_case": "lower"}, {"null_policy": "none"},
                                 {"ignore_header_errors": True}, {"mnemonic_case": "lower", "engine": "normal"}]),
                "policy": Policy.draw(st.io).to_json()}

    def load(self, sc, fs):
        import lasio
        src = sc["src"]
        rkw = dict(sc["rkw"])
        if src["kind"] == "corpus" and src["mutate"] is None:
            fs.store("/simfs/c12/in.las", corpus_bytes(src["file"]))
            return lasio.read("/simfs/c12/in.las", **rkw)
        if src["kind"] == "corpus":
            lines = corpus_bytes(src["file"]).decode("utf-8").replace("\r\n", "\n").split("\n")
        else:
            lines = list(src["lines"])
        if src["mutate"] is not None:
            lines = mutate_lines(random.Random(src["mutate"]), lines)
        fs.store_text("/simfs/c12/in.las", "\n".join(lines) + "\n")
        return lasio.read("/simfs/c12/in.las", encoding="utf-8", **rkw)

    def run(self, sc):
        res = Result()
        src = sc["src"]
        pol = Policy.from_json(sc["policy"])
        if src["kind"] == "corpus" and len(corpus_bytes(src["file"])) > 6000 and (pol.buffer < 64 or pol.chunk < 32 or 0 < pol.max_read < 64):
            pol = Policy(kind=pol.kind, max_read=max(pol.max_read, 200), max_write=0 if pol.max_write == 0 else max(pol.max_write, 64),
                         buffer=max(pol.buffer, 128), chunk=max(pol.chunk, 64), io_seed=pol.io_seed)
        fs = SimFS(policy=pol)
        outs, notes = [], []
        with fs:
            for i in (0, 1):
                try:
                    las = self.load(sc, fs)
                except Exception as e:
                    res.skipped = "input unreadable"
                    res.count("input-unreadable:" + type(e).__name__)
                    return res
                kw = copy.deepcopy(sc["cfgs"][i])
                if kw.get("wrap") or (kw.get("wrap") is None and "WRAP" in las.version and las.version["WRAP"].value == "YES"):
                    kw["data_width"] = max(kw.get("data_width", 79), 60)
                ch = sc["chans"][i]
                try:
                    text = write_via(fs, las, ch["out"], kw, tag="c12", codec=ch["codec"] if ch["out"] == "stream" else "utf-8")
                except UnicodeEncodeError:
                    res.skipped = "text not encodable in the drawn codec"
                    return res
                except Exception as e:
                    res.skipped = "input unwritable with one of the configurations"
                    res.count("unwritable:" + type(e).__name__)
                    return res
                try:
                    back = read_via(fs, text, ch["in"], dict(sc["rkw"]), tag="c12")
                except UnicodeEncodeError:
                    res.skipped = "text not encodable in the drawn codec"
                    return res
                except Exception as e:
                    res.violate("C12.output-unreadable", "lasio cannot read what it wrote%s with %r: %s: %s" % (
                        hyphenless_note(text), kw, type(e).__name__, str(e).strip().splitlines()[-1][:200] if str(e).strip() else ""))
                    res.events = fs.seq
                    return res
                notes.append(hyphenless_note(text))
                outs.append(mask_vers_wrap(C.canon(back, strict=False, with_session=True, data=True, index_unit=True)))
        res.events = fs.seq
        res.merge_counts(fs.counts)
        a, b = sc["cfgs"]
        diffk = [k for k in set(a) | set(b) if a.get(k) != b.get(k)]
        res.nontrivial = ("version" in diffk) or ("wrap" in diffk) or len(diffk) >= 2
        for k in diffk:
            res.count("differs-in:" + k)
        res.log.append([src.get("file") or len(src.get("lines", [])), src.get("mutate"), sorted(a.items(), key=str), sorted(b.items(), key=str),
                        [c["in"]["channel"] for c in sc["chans"]], C.sha_text(repr(outs[0]))])
        if outs[0] != outs[1]:
            res.violate("C12.content-differs", "content read back depends on the writer configuration%s (%r vs %r; rkw=%r): %s" % (
                "".join(sorted(set(notes))), a, b, sc["rkw"], "; ".join(C.diff(outs[0], outs[1]))))
        return res

    def shrink_lists(self, sc):
        return [("src", "lines")] if sc["src"]["kind"] == "lines" else []

    def simplify(self, sc):
        for i in (0, 1):
            for k in list(sc["cfgs"][i]):
                d = copy.deepcopy(sc)
                del d["cfgs"][i][k]
                if k == "fmt":
                    d["cfgs"][1 - i].pop("fmt", None)
                yield d
        if sc["rkw"]:
            d = copy.deepcopy(sc)
            d["rkw"] = {}
            yield d
        if sc["policy"] != Policy().to_json():
            d = copy.deepcopy(sc)
            d["policy"] = Policy().to_json()
            yield d
        if sc["src"].get("mutate") is not None:
            d = copy.deepcopy(sc)
            d["src"]["mutate"] = None
            yield d
        for i, ch in enumerate(sc["chans"]):
            if ch["out"] != "stringio" or ch["in"]["channel"] != "stringio":
                d = copy.deepcopy(sc)
                d["chans"][i] = {"out": "stringio", "codec": "utf-8", "in": {"channel": "stringio", "codec": "utf-8", "explicit": True, "newline": "\n"}}
                yield d


PROP = C12()

PROP.rule += (" Strata added while closing seeded changes (DESIGN section 10): "
              'hyphenated text columns, terse ~Well sections, numeric descriptions, WRAP spellings.')
PROP.rule += ' Round 8: LAS 1.0 inputs.'
