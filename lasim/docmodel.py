"""Workload helpers: LAS text rendering from small abstract documents, written independently of
lasio's writer (DESIGN 2.2).  A physical document is a list of lines; helpers build header lines
and standard sections.  Conformance masks (Appendix C) are enforced by the generators that use
these helpers."""


def hline(mnem, unit="", value="", descr="", pads=(0, 1, 1, 1), tab=False):
    """MNEM<pad0>.UNIT<pad1>VALUE<pad2>:<pad3>DESCR ; pad1 >= 1 always (a blank must end the unit)."""
    sp = "\t" if tab else " "
    p0, p1, p2, p3 = pads
    return "%s%s.%s%s%s%s:%s%s" % (mnem, sp * p0, unit, sp * max(1, p1), value, sp * p2, sp * p3, descr)


def version_section(vers=2.0, wrap="NO", dlm=None, title="~Version Information"):
    lines = [title,
             hline("VERS", "", ("%.1f" % vers), "CWLS LOG ASCII STANDARD - VERSION %.1f" % vers, (0, 12, 1, 1)),
             hline("WRAP", "", wrap, "One line per depth step" if wrap == "NO" else "Multiple lines per depth step",
                   (0, 12, 1, 1))]
    if dlm is not None:
        lines.append(hline("DLM", "", dlm, "Column delimiter", (0, 12, 1, 1)))
    return lines


def well_section(strt=0.0, stop=1.0, step=0.5, null=-999.25, unit="M", extra=(), title="~Well Information",
                 version=2.0):
    lines = [title,
             hline("STRT", unit, repr(float(strt)), "START DEPTH", (0, 8, 1, 1)),
             hline("STOP", unit, repr(float(stop)), "STOP DEPTH", (0, 8, 1, 1)),
             hline("STEP", unit, repr(float(step)), "STEP", (0, 8, 1, 1))]
    if null is not None:
        lines.append(hline("NULL", "", null if isinstance(null, str) else repr(null), "NULL VALUE", (0, 8, 1, 1)))
    for (m, u, v, d) in extra:
        if version == 1.2:
            lines.append(hline(m, u, d, v, (0, 4, 1, 1)))
        else:
            lines.append(hline(m, u, v, d, (0, 4, 1, 1)))
    return lines


def curve_section(curves, title="~Curve Information"):
    """curves: list of (mnem, unit, value, descr)"""
    lines = [title]
    for (m, u, v, d) in curves:
        lines.append(hline(m, u, v, d, (0, 4, 1, 1)))
    return lines


def param_section(params, title="~Parameter Information"):
    lines = [title]
    for (m, u, v, d) in params:
        lines.append(hline(m, u, v, d, (0, 4, 1, 1)))
    return lines


def other_section(text_lines, title="~Other"):
    return [title] + list(text_lines)


def data_section(rows, sep=" ", title="~ASCII", lead=" "):
    lines = [title]
    for r in rows:
        lines.append(lead + sep.join(r))
    return lines


def join(lines, eol="\n", final_newline=True):
    t = eol.join(lines)
    if final_newline:
        t += eol
    return t


def simple_doc(ncurves=3, nrows=4, vers=2.0, wrap="NO", null=-999.25, params=(("BHT", "DEGC", "35.5", "BOTTOM HOLE TEMP"),),
               other=("Some free text.",), well_extra=(("COMP", "", "ACME OIL", "COMPANY"), ("WELL", "", "W-1", "WELL")),
               unit="M", cell=None, curve_names=None):
    """A small, entirely regular V,W,C,P,O,A document.  cell(i, j) -> str."""
    if cell is None:
        def cell(i, j):
            return "%.4f" % (i * 0.5 if j == 0 else (i * 10 + j) * 1.25)
    names = curve_names or (["DEPT"] + ["C%d" % j for j in range(1, ncurves)])
    curves = [(names[j], unit if j == 0 else "U%d" % j, "", "curve %d" % j) for j in range(ncurves)]
    rows = [[cell(i, j) for j in range(ncurves)] for i in range(nrows)]
    lines = []
    lines += version_section(vers, wrap)
    lines += well_section(0.0, (nrows - 1) * 0.5 if nrows else 0.0, 0.5, null, unit, well_extra, version=vers)
    lines += curve_section(curves)
    lines += param_section(params)
    lines += other_section(other)
    if wrap == "YES":
        lines.append("~ASCII")
        for r in rows:
            lines.append(" " + r[0])
            rest = r[1:]
            for k in range(0, len(rest), 5):
                lines.append(" " + " ".join(rest[k:k + 5]))
    else:
        lines += data_section(rows)
    return lines


# ---------------------------------------------------------------------------------------------------------
# abstract documents
# ---------------------------------------------------------------------------------------------------------
WELL_ORDER_12_VALUE_FIRST = ("STRT", "STOP", "STEP", "NULL", "strt", "stop", "step", "null")


def render_items(items, kind, vers, pads=None):
    out = []
    for k, it in enumerate(items):
        m, u, v, d = it[:4]
        p = (pads[k] if pads else None) or (0, 3, 1, 1)
        if kind == "W" and vers in (1.0, 1.2) and m.upper() not in ("STRT", "STOP", "STEP", "NULL"):
            out.append(hline(m, u, d, v, p))
        else:
            out.append(hline(m, u, v, d, p))
    return out


def render_doc(doc):
    """doc -> list of physical lines.  Sections in doc order; data rows joined by doc['sep'] (default blank)."""
    lines = []
    vers = doc.get("vers", 2.0)
    for sec in doc["sections"]:
        lines.append(sec["title"])
        k = sec["kind"]
        if k in ("V", "W", "C", "P", "X"):
            lines += render_items(sec["items"], k, vers, sec.get("pads"))
        elif k in ("O", "T"):
            lines += list(sec["text"])
        elif k == "A":
            sep = doc.get("sep", " ")
            lead = doc.get("lead", " ")
            if doc.get("wrap"):
                per = doc.get("per_line", 5)
                for r in sec["rows"]:
                    lines.append(lead + r[0])
                    rest = r[1:]
                    for i in range(0, len(rest), per):
                        lines.append(lead + sep.join(rest[i:i + per]))
            else:
                for r in sec["rows"]:
                    lines.append(lead + sep.join(r))
    return lines


def std_doc(g, ncurves=None, nrows=None, vers=None, wrap=False, null="-999.25", with_p=True, with_o=True,
            custom=0, cell=None, nonascii=False):
    """A random but entirely conformant V,W,C,[P],[O],[custom...],A document (abstract form)."""
    ncurves = ncurves if ncurves is not None else g.randint(1, 5)
    nrows = nrows if nrows is not None else g.randint(1, 6)
    vers = vers if vers is not None else g.choice([1.2, 2.0])
    step = 0.5
    comp = g.choice(["ACME OIL", "Big Rig Ltd", "ANY OIL COMPANY INC"])
    if nonascii:
        comp = g.choice(["Åsgard Ølje", "Société Générale", "Müller & Söhne"])
    v_items = [["VERS", "", "%.1f" % vers, "CWLS LOG ASCII STANDARD - VERSION %.1f" % vers],
               ["WRAP", "", "YES" if wrap else "NO", "Multiple lines per depth step" if wrap else "One line per depth step"]]
    w_items = [["STRT", "M", "%.4f" % 0.0, "START DEPTH"], ["STOP", "M", "%.4f" % ((nrows - 1) * step), "STOP DEPTH"],
               ["STEP", "M", "%.4f" % step, "STEP"], ["NULL", "", null, "NULL VALUE"],
               ["COMP", "", comp, "COMPANY"], ["WELL", "", g.choice(["W-1", "ANY ET AL 12-34"]), "WELL"],
               ["FLD", "", g.choice(["WILDCAT", "EDAM"]), "FIELD"]]
    c_items = [["DEPT", "M", "", "1 DEPTH"]] + [["C%d" % j, g.choice(["US/M", "K/M3", "OHMM", "V/V", ""]),
                                                 g.choice(["", "60 520 32 00"]), "%d curve %d" % (j + 1, j)]
                                                for j in range(1, ncurves)]
    p_items = [["BHT", "DEGC", "35.5", "BOTTOM HOLE TEMPERATURE"], ["MUD", "", "GEL CHEM", "MUD TYPE"],
               ["BS", "MM", "200", "BIT SIZE"]][:g.randint(0, 3)]
    if cell is None:
        def cell(i, j):
            return "%.4f" % (i * step if j == 0 else (i * 10 + j) * 1.25)
    rows = [[cell(i, j) for j in range(ncurves)] for i in range(nrows)]
    secs = [{"kind": "V", "title": "~Version Information", "items": v_items},
            {"kind": "W", "title": "~Well Information", "items": w_items},
            {"kind": "C", "title": "~Curve Information", "items": c_items}]
    if with_p:
        secs.append({"kind": "P", "title": "~Parameter Information", "items": p_items})
    if with_o:
        secs.append({"kind": "O", "title": "~Other", "text": ["Note: some free text", "second line of it"][:g.randint(0, 2)]})
    for c in range(custom):
        secs.append({"kind": "X", "title": "~%s custom %d" % ("XYZ"[c % 3], c),
                     "items": [["K%d" % c, "", "%d" % (c + 1), "custom item"]]})
    secs.append({"kind": "A", "title": "~ASCII", "rows": rows})
    return {"vers": vers, "wrap": wrap, "sections": secs, "null": null}
