"""Input / output channels of the simulated clients (DESIGN B.4).

read:  path (str), Path (pathlib), stream (caller-opened SimFS text stream), stringio, string
write: path, stream, stringio
A channel configuration is a small JSON record: {"channel", "codec", "explicit", "newline"}.
"""
import io
import pathlib

READ_CHANNELS = ["path", "Path", "stream", "stringio", "string"]
FILE_CHANNELS = ["path", "Path", "stream"]
CODECS_ASCII_SAFE = ["utf-8", "utf-8-sig", "utf-16", "latin-1", "cp1252"]

_counter = [0]


USED_OBJECT_DOCS = {
    "PLAIN": "~V\nVERS. 2.0 : earlier file\nWRAP. NO : earlier file\n~W\nSTRT.M 1 : earlier\nSTOP.M 2 : earlier\nSTEP.M 1 : earlier\n"
             "NULL. -5 : earlier null\nEARL. x : earlier item\n~C\nED.M : earlier\nEA.U : earlier\nEB.U : earlier\n~A\n1 2 -5\n2 3 4\n",
    "COMMA": "~V\nVERS. 2.0 : earlier file\nWRAP. NO : earlier file\nDLM . COMMA : earlier file\n~W\nNULL. -5 : earlier null\n~C\nED.M : earlier\nEA.U : earlier\n"
             "~A\n1,2\n2,-5\n",
    "TAB": "~V\nVERS. 2.0 : earlier file\nWRAP. NO : earlier file\nDLM . TAB : earlier file\n~W\nNULL. 7 : earlier null\n~C\nED.M : earlier\nEA.U : earlier\n"
           "~A\n1\t2\n2\t7\n",
    "WRAP": "~V\nVERS. 1.2 : earlier file\nWRAP. YES : earlier file\n~W\nNULL. -5 : earlier null\n~C\nED.M : earlier\nEA.U : earlier\nEB.U : earlier\n"
            "~A\n1.0\n2.0 3.0\n2.0\n3.0 -5\n",
}


def draw_read_channel(g, ascii_only=True, allow_cr=True, encodable=None, used_object_p=0.0):
    """Draw a channel configuration.  Only configurations the statements claim are produced:
    BOM-less non-ASCII files always get an explicit encoding=; CR-only line ends only for files."""
    ch = g.choice(READ_CHANNELS)
    cfg = {"channel": ch, "codec": "utf-8", "explicit": False, "newline": "\n"}
    if ch in FILE_CHANNELS:
        codecs = list(encodable) if encodable is not None else list(CODECS_ASCII_SAFE)
        cfg["codec"] = g.choice(codecs)
        cfg["newline"] = g.choice(["\n", "\n", "\r\n", "\r"] if allow_cr else ["\n", "\r\n"])
        if cfg["codec"] == "utf-8-sig":
            cfg["explicit"] = g.random() < 0.5
            if cfg["explicit"] and g.random() < 0.6:
                cfg["encoding_kw"] = g.choice(["utf-8", "UTF-8", "utf8"])      # BOM file + plain UTF-8 named explicitly
        elif cfg["codec"] == "utf-8" and ascii_only:
            # pure-ASCII text: either encoding= is given, or chardet is switched off (autodetect_encoding=False: lasio then
            # tries ascii first).  chardet's guess for BOM-less files is not claimed by any property (it takes e.g.
            # '+Y+M' in an ASCII file for UTF-7), so it is never relied upon.
            cfg["explicit"] = g.random() < 0.5
            cfg["no_chardet"] = not cfg["explicit"]
        else:
            cfg["explicit"] = True
    else:
        cfg["newline"] = g.choice(["\n", "\n", "\r\n"])
    if ch == "stream" and g.random() < 0.25:
        cfg["fd_name"] = True
    if used_object_p and g.random() < used_object_p:
        # the LASFile object doing the read has read another file (sections V, W, C, A) before
        cfg["used_object"] = g.choice(sorted(USED_OBJECT_DOCS))
    return cfg


class _Into(object):
    """Stands in for the lasio module: `read` re-uses an existing LASFile object (LASFile.read called again)."""

    def __init__(self, las):
        self.las = las

    def read(self, src, **kw):
        self.las.read(src, **kw)
        return self.las


def read_via(fs, text, cfg, kw=None, lasio_mod=None, tag="r", into=None):
    """Deliver `text` (with '\\n' line ends) to lasio.read through the configured channel."""
    if into is None and cfg.get("used_object"):
        into = (lasio_mod or __import__("lasio")).LASFile()
        into.read(io.StringIO(USED_OBJECT_DOCS[cfg["used_object"]]))
    lasio = _Into(into) if into is not None else (lasio_mod or __import__("lasio"))
    kw = dict(kw or {})
    ch = cfg["channel"]
    nl = cfg.get("newline", "\n")
    if ch in FILE_CHANNELS:
        if cfg.get("path_slot") is not None:
            path = "/simfs/%s/slot%d.las" % (tag, cfg["path_slot"])     # the same path is overwritten by later reads
        else:
            _counter[0] += 1
            path = "/simfs/%s/f%d.las" % (tag, _counter[0])
        fs.store_text(path, text, codec=cfg["codec"], newline=nl)
        if ch == "stream":
            fh = fs.open_as_caller(path, "r", encoding=cfg["codec"], newline=None)
            if cfg.get("fd_name"):
                fh.buffer.raw.name = 7          # a stream opened from a file descriptor: its .name is an int
            try:
                return lasio.read(fh, **kw)
            finally:
                fh.close()
        if cfg.get("explicit"):
            kw["encoding"] = cfg.get("encoding_kw") or cfg["codec"]
            if cfg.get("no_autodetect"):
                kw["autodetect_encoding"] = False
        elif cfg.get("no_chardet") or cfg["codec"] != "utf-8-sig":
            kw["autodetect_encoding"] = False
        src = path if ch == "path" else pathlib.Path(path)
        return lasio.read(src, **kw)
    t = text if nl == "\n" else text.replace("\n", nl)
    if ch == "stringio":
        return lasio.read(io.StringIO(t), **kw)
    if len(t.splitlines()) < 2:
        return lasio.read(io.StringIO(t), **kw)
    return lasio.read(t, **kw)


def write_via(fs, las, channel, kw=None, tag="w", codec="utf-8"):
    """Write through the channel, return the text that was stored (with '\\n' line ends as written)."""
    kw = dict(kw or {})
    if channel == "stringio":
        s = io.StringIO()
        las.write(s, **kw)
        return s.getvalue()
    _counter[0] += 1
    path = "/simfs/%s/o%d.las" % (tag, _counter[0])
    if channel == "path":
        las.write(path, **kw)
    else:
        fh = fs.open_as_caller(path, "w", encoding=codec, newline="")
        try:
            las.write(fh, **kw)
        finally:
            fh.close()
        return fs.gettext(path, codec)
    return fs.gettext(path)
