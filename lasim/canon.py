"""canon(las): the only way results are observed (DESIGN 2.3).  JSON-able, hash-seed independent."""
import math

import numpy as np


def cval(v):
    """Canonical header value: numbers compared numerically, text as text."""
    if isinstance(v, (bool, np.bool_)):
        return ["b", bool(v)]
    if isinstance(v, (int, np.integer)):
        return ["n", float(int(v)).hex() if abs(int(v)) < 2 ** 53 else str(int(v))]
    if isinstance(v, (float, np.floating)):
        f = float(v)
        if math.isnan(f):
            return ["nan"]
        return ["n", f.hex()]
    if v is None:
        return ["none"]
    if isinstance(v, str):
        return ["s", v]
    return ["o", type(v).__name__, repr(v)]


def cval_strict(v):
    """As cval but keeps the Python type (for frame conditions)."""
    c = cval(v)
    return [type(v).__name__] + c


def ccell(x):
    if isinstance(x, (float, np.floating)):
        f = float(x)
        return "nan" if math.isnan(f) else f.hex()
    if isinstance(x, (int, np.integer)):
        return float(int(x)).hex()
    return ["s", str(x)]


def cdata(arr):
    a = np.asarray(arr)
    kind = a.dtype.kind
    if kind == "f":
        return ["f", list(a.shape), [("nan" if math.isnan(x) else float(x).hex()) for x in a.ravel().tolist()]]
    if kind in "iu":
        return ["i", list(a.shape), [float(x).hex() for x in a.ravel().tolist()]]
    return [("U" if kind in "USO" else kind), list(a.shape), [ccell(x) for x in a.ravel().tolist()]]


def citem(it, strict=False, with_session=True):
    cv = cval_strict if strict else cval
    d = {"orig": it.original_mnemonic, "unit": it.unit if isinstance(it.unit, str) else cv(it.unit),
         "value": cv(it.value), "descr": it.descr if isinstance(it.descr, str) else cv(it.descr)}
    if with_session:
        d["session"] = it.mnemonic
    return d


def csection(sec, strict=False, with_session=True, data=False):
    if isinstance(sec, str):
        return ["text", sec]
    out = []
    for it in sec:
        d = citem(it, strict, with_session)
        if data and hasattr(it, "data") and it.data is not None:
            d["data"] = cdata(it.data)
        out.append(d)
    return ["items", out]


def canon(las, strict=False, with_session=True, data=True, index_unit=True, skip_sections=()):
    out = {"sections": [], "keys": list(las.sections.keys())}
    for name, sec in las.sections.items():
        if name in skip_sections:
            continue
        out["sections"].append([name, csection(sec, strict, with_session, data=(data and name == "Curves"))])
    if index_unit:
        out["index_unit"] = las.index_unit
    return out


def diff(a, b, path="", out=None, limit=6):
    """Small structural diff for messages."""
    if out is None:
        out = []
    if len(out) >= limit:
        return out
    if type(a) != type(b):
        out.append("%s: %r != %r" % (path, _short(a), _short(b)))
    elif isinstance(a, dict):
        for k in sorted(set(a) | set(b)):
            if k not in a or k not in b:
                out.append("%s.%s: only on one side (%r / %r)" % (path, k, _short(a.get(k)), _short(b.get(k))))
            else:
                diff(a[k], b[k], path + "." + str(k), out, limit)
    elif isinstance(a, list):
        if len(a) != len(b):
            out.append("%s: len %d != %d (%r / %r)" % (path, len(a), len(b), _short(a), _short(b)))
        else:
            for i, (x, y) in enumerate(zip(a, b)):
                diff(x, y, "%s[%d]" % (path, i), out, limit)
    elif a != b:
        out.append("%s: %r != %r" % (path, _short(a), _short(b)))
    return out


def _short(x):
    s = repr(x)
    return s if len(s) < 160 else s[:157] + "..."


def sha_text(t):
    import hashlib
    return hashlib.sha256(t.encode("utf-8", "replace")).hexdigest()[:16]
