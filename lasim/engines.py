"""Fast/slow engine seam (DESIGN 1.2): lasio.las looks the two data-section readers up through the
`reader` module at call time, so they can be wrapped from outside /repo to (a) record which engine actually
produced each data section and (b) force the fast engine to fail on entry (buggify), which must be masked by the
fallback to the reference engine."""


class ForcedEngineFailure(Exception):
    pass


class EngineTrace(object):
    def __init__(self, force_numpy_fail=False):
        self.force = force_numpy_fail
        self.trace = []          # "numpy-ok" | "numpy-raised:<Exc>" | "numpy-forced-fail" | "normal"
        self.available = False

    def __enter__(self):
        import lasio.reader as reader
        self.reader = reader
        self.orig_np = getattr(reader, "read_data_section_iterative_numpy_engine", None)
        self.orig_nm = getattr(reader, "read_data_section_iterative_normal_engine", None)
        if self.orig_np is None or self.orig_nm is None:
            return self           # refactored away: trace unavailable, never a violation
        self.available = True
        tr = self

        def np_wrapper(*a, **k):
            if tr.force:
                tr.trace.append("numpy-forced-fail")
                raise ForcedEngineFailure("simulated failure of the fast engine on entry")
            try:
                out = tr.orig_np(*a, **k)
            except Exception as e:
                tr.trace.append("numpy-raised:" + type(e).__name__)
                raise
            tr.trace.append("numpy-ok")
            return out

        def nm_wrapper(*a, **k):
            tr.trace.append("normal")
            return tr.orig_nm(*a, **k)

        reader.read_data_section_iterative_numpy_engine = np_wrapper
        reader.read_data_section_iterative_normal_engine = nm_wrapper
        return self

    def __exit__(self, *exc):
        if self.available:
            self.reader.read_data_section_iterative_numpy_engine = self.orig_np
            self.reader.read_data_section_iterative_normal_engine = self.orig_nm
        return False

    def produced_by(self):
        """Which engine produced the (last) data section."""
        if not self.trace:
            return "none"
        return "numpy" if self.trace[-1] == "numpy-ok" else ("normal" if self.trace[-1] == "normal" else self.trace[-1])
