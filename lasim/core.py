"""Core of the simulator: seeds and sub-streams, run loop, worker pool, shrinking, replay
files, known findings, evidence.  See DESIGN.md sections 1.3, 2.5-2.9."""
import copy
import hashlib
import json
import os
import random
import shutil
import subprocess
import sys
import tempfile
import time
import traceback

VERIF = os.path.dirname(os.path.dirname(os.path.abspath(__file__)))
REPO = os.environ.get("LASIM_REPO", "/repo")
if REPO not in sys.path:
    sys.path.insert(0, REPO)

EVIDENCE_DIR = os.environ.get("LASIM_EVIDENCE_DIR") or os.path.join(VERIF, "evidence")
REPLAY_DIR = os.environ.get("LASIM_REPLAY_DIR") or os.path.join(VERIF, "replays")
FINDINGS_FILE = os.path.join(VERIF, "known_findings.json")
CHECK = os.path.join(VERIF, "check")


# ------------------------------------------------------------------------------------
# seeds
# ------------------------------------------------------------------------------------
def H(*parts):
    """Stable 64-bit hash of the parts (independent of PYTHONHASHSEED)."""
    h = hashlib.sha256(repr(parts).encode("utf-8")).digest()
    return int.from_bytes(h[:8], "big")


def sha(obj):
    return hashlib.sha256(json.dumps(obj, sort_keys=True, default=str).encode("utf-8")).hexdigest()


class Streams(object):
    """Independent PRNG sub-streams of one run seed, so that deleting a workload step
    during shrinking does not shift fault / schedule / delivery decisions."""

    def __init__(self, run_seed):
        self.run_seed = run_seed
        self.gen = random.Random(H(run_seed, "gen"))
        self.io = random.Random(H(run_seed, "io"))
        self.fault = random.Random(H(run_seed, "fault"))
        self.sched = random.Random(H(run_seed, "sched"))


def run_seed(seed, prop_id, index):
    return H(int(seed), prop_id, int(index))


# ------------------------------------------------------------------------------------
# property base class
# ------------------------------------------------------------------------------------
class Violation(Exception):
    def __init__(self, oracle, msg, step=None):
        Exception.__init__(self, "%s: %s" % (oracle, msg))
        self.oracle = oracle
        self.msg = msg
        self.step = step


class Result(object):
    def __init__(self):
        self.violations = []      # list of {"oracle","msg","step"}
        self.log = []             # event log (JSON-able); its hash is the run digest
        self.counts = {}
        self.nontrivial = False
        self.key = None           # distinctness key (defaults to the digest)
        self.events = 0           # simulated events (global sequence numbers consumed)
        self.skipped = None       # reason string when the scenario was skipped by definition

    def count(self, k, n=1):
        self.counts[k] = self.counts.get(k, 0) + n

    def merge_counts(self, d, prefix=""):
        for k, v in d.items():
            self.count(prefix + k, v)

    def violate(self, oracle, msg, step=None):
        self.violations.append({"oracle": oracle, "msg": str(msg)[:2000], "step": step})

    def digest(self):
        return sha(self.log)

    def to_json(self):
        d = self.digest()
        return {"violations": self.violations, "digest": d, "counts": self.counts,
                "nontrivial": bool(self.nontrivial), "key": self.key or d, "events": self.events,
                "skipped": self.skipped}


class Prop(object):
    id = "C00"
    level = "exploration"
    rule = ""
    assumptions = []
    real_vs_stub = {
        "real": ["lasio (all modules, from /repo working tree)", "io.TextIOWrapper / BufferedReader / "
                 "BufferedWriter / codecs", "numpy.genfromtxt and numpy parsing/formatting", "textwrap, re, csv, "
                 "pickle, copy"],
        "stub": ["SimRaw raw device + SimFS namespace (lasim/simfs.py)", "builtins.open / io.open / "
                 "os.path.getsize patched for /simfs/*", "simulated callers (operation lists)"],
    }
    quick = {"runs": 2000, "wall": 40}
    thorough = {"runs": 100000, "wall": 600}
    hash_sensitive = False

    def budget(self, tier):
        b = dict(self.quick if tier == "quick" else self.thorough)
        if os.environ.get("LASIM_RUNS"):
            b["runs"] = int(os.environ["LASIM_RUNS"])
        if os.environ.get("LASIM_WALL"):
            b["wall"] = float(os.environ["LASIM_WALL"])
        return b

    def gen(self, st, tier, index):
        raise NotImplementedError

    def run(self, scenario):
        raise NotImplementedError

    # shrinking ------------------------------------------------------------------------
    def shrink_lists(self, scenario):
        """JSON paths (tuples of keys) of lists that ddmin may delete elements from."""
        return []

    def simplify(self, scenario):
        """Yield candidate simpler scenarios (per-field passes)."""
        return []

    def valid(self, scenario):
        """Conformance mask: shrunk scenarios must stay inside the property's domain."""
        return True

    # known findings ---------------------------------------------------------------------
    predicates = {}

    def enumerated(self, tier):
        """Optional: scenarios swept completely on every run of the check (small strata)."""
        return []

    def extra_evidence(self):
        return {}


def get_prop(pid):
    import importlib
    mod = importlib.import_module("lasim.props." + pid.lower())
    return mod.PROP


# ------------------------------------------------------------------------------------
# running one scenario safely
# ------------------------------------------------------------------------------------
def run_scenario(prop, scenario):
    """Run a scenario; harness exceptions are kept apart from violations."""
    sc = copy.deepcopy(scenario)
    herr = None
    try:
        res = prop.run(sc)
    except Violation as v:           # a property may raise its first violation
        res = Result()
        res.violate(v.oracle, v.msg, v.step)
    except Exception:
        res = Result()
        herr = traceback.format_exc()[-1500:]
    out = res.to_json()
    out["harness_error"] = herr
    return out


def find_known(prop, scenario, violation, findings):
    for f in findings:
        if f.get("status", "known") != "known":
            continue
        if f["property"] != prop.id or f["oracle"] != violation["oracle"]:
            continue
        pred = prop.predicates.get(f["predicate"])
        if pred is None:
            continue
        try:
            if pred(scenario, violation, f.get("params") or {}):
                return f
        except Exception:
            continue
    return None


def load_findings():
    if not os.path.exists(FINDINGS_FILE):
        return []
    with open(FINDINGS_FILE) as fh:
        return json.load(fh).get("findings", [])


# ------------------------------------------------------------------------------------
# worker
# ------------------------------------------------------------------------------------
def worker_main(pid, args):
    import faulthandler
    prop = get_prop(pid)
    seed, tier = args["seed"], args["tier"]
    start, stop, step = args["start"], args["stop"], args["step"]
    deadline = args["deadline"]
    findings = load_findings()
    out = {"runs": 0, "nontrivial": 0, "counts": {}, "keys": [], "digests": {}, "violations": [],
           "known": {}, "samples": [], "events": 0, "skipped": {}, "stopped_early": False,
           "enumerated": 0}
    keys = set()

    def account(idx, sc, r):
        if r.get("harness_error"):
            out.setdefault("harness_errors", [])
            if len(out["harness_errors"]) < 2:
                out["harness_errors"].append({"index": idx, "scenario": sc, "trace": r["harness_error"]})
            out["n_harness_errors"] = out.get("n_harness_errors", 0) + 1
            return
        out["runs"] += 1
        out["events"] += r["events"]
        for k, v in r["counts"].items():
            out["counts"][k] = out["counts"].get(k, 0) + v
        if r["skipped"]:
            out["skipped"][r["skipped"]] = out["skipped"].get(r["skipped"], 0) + 1
        if r["nontrivial"]:
            out["nontrivial"] += 1
            keys.add(r["key"][:16])
            if len(out["samples"]) < 2:
                out["samples"].append(sc)
        if args.get("digests"):
            out["digests"][str(idx)] = r["digest"][:16]
        for v in r["violations"]:
            kf = find_known(prop, sc, v, findings)
            if kf is not None:
                out["known"][kf["id"]] = out["known"].get(kf["id"], 0) + 1
            elif len(out["violations"]) < 20:
                out["violations"].append({"index": idx, "scenario": sc, "violation": v, "optimize": int(sys.flags.optimize),
                                          "history": {"seed": seed, "tier": tier, "start": start, "step": step, "upto": idx}})

    # enumerated strata are swept by worker 0 .. n-1 round-robin
    enum = prop.enumerated(tier)
    for j, sc in enumerate(enum):
        if j % step != start % step:
            continue
        faulthandler.dump_traceback_later(120, exit=True)
        r = run_scenario(prop, sc)
        faulthandler.cancel_dump_traceback_later()
        account("e%d" % j, sc, r)
        out["enumerated"] += 1

    for idx in range(start, stop, step):
        if time.time() > deadline:
            out["stopped_early"] = True
            break
        st = Streams(run_seed(seed, prop.id, idx))
        sc = prop.gen(st, tier, idx)
        faulthandler.dump_traceback_later(120, exit=True)
        r = run_scenario(prop, sc)
        faulthandler.cancel_dump_traceback_later()
        account(idx, sc, r)
    out["keys"] = sorted(keys)
    with open(args["out"], "w") as fh:
        json.dump(out, fh)
    return 0


# ------------------------------------------------------------------------------------
# shrinking (ddmin over lists + per-field simplification), while the same oracle fails
# ------------------------------------------------------------------------------------
def _get(sc, path):
    x = sc
    for k in path:
        x = x[k]
    return x


def _set(sc, path, val):
    x = sc
    for k in path[:-1]:
        x = x[k]
    x[path[-1]] = val


def shrink(prop, scenario, oracle, budget_s=60.0):
    t0 = time.time()
    tests = [0]

    def fails(sc):
        tests[0] += 1
        try:
            if not prop.valid(sc):
                return False
            r = run_scenario(prop, sc)
        except Exception:
            return False
        return any(v["oracle"] == oracle for v in r["violations"])

    cur = copy.deepcopy(scenario)
    improved = True
    while improved and time.time() - t0 < budget_s:
        improved = False
        for path in prop.shrink_lists(cur):
            try:
                lst = list(_get(cur, path))
            except (KeyError, IndexError, TypeError):
                continue
            n = 2
            while len(lst) >= 1 and time.time() - t0 < budget_s:
                chunk = max(1, len(lst) // n)
                removed = False
                for i in range(0, len(lst), chunk):
                    cand_list = lst[:i] + lst[i + chunk:]
                    cand = copy.deepcopy(cur)
                    _set(cand, path, cand_list)
                    if fails(cand):
                        cur, lst = cand, cand_list
                        n = max(n - 1, 2)
                        removed = improved = True
                        break
                if not removed:
                    if chunk == 1:
                        break
                    n = min(len(lst), n * 2)
        for cand in prop.simplify(cur):
            if time.time() - t0 > budget_s:
                break
            if cand != cur and fails(cand):
                cur = cand
                improved = True
                break
    return cur, tests[0]


# ------------------------------------------------------------------------------------
# replay files
# ------------------------------------------------------------------------------------
def write_replay(prop, scenario, violation, seed, index, shrink_tests=None, original=None, history=None, optimize=0):
    d = os.path.join(REPLAY_DIR, prop.id)
    os.makedirs(d, exist_ok=True)
    slug = "".join(ch if ch.isalnum() else "_" for ch in violation["oracle"].split(".", 1)[-1])
    path = os.path.join(d, "%s-%s-%s.json" % (seed, index, slug))
    r = run_scenario(prop, scenario)
    doc = {"format": 1, "property": prop.id, "oracle": violation["oracle"], "seed": seed, "run": index,
           "scenario": scenario,
           "expect": {"class": violation["oracle"], "message": violation["msg"][:500],
                      "step": violation.get("step")},
           "digest": r["digest"], "shrink_tests": shrink_tests}
    if optimize:
        doc["interpreter"] = {"optimize": int(optimize),
                              "note": "found by a worker running under python -O; --replay re-executes itself with PYTHONOPTIMIZE=1"}
    if history:
        doc["history"] = history
        doc["history_note"] = ("the violation depends on state left in the process by the runs the worker executed before this "
                               "scenario; replay re-runs that prefix (regenerated from the seed) first")
    with open(path, "w") as fh:
        json.dump(doc, fh, indent=1, sort_keys=True, default=str)
    return path


def run_history_prefix(prop, h):
    """Re-run, in this interpreter, the scenarios the worker had executed before the failing one (same order): a violation
    that depends on state left behind by earlier runs in the same process (module-level caches, mutated defaults) is
    reproducible only with that prefix."""
    step, start = h["step"], h["start"]
    upto = h["upto"]
    for j, sc in enumerate(prop.enumerated(h["tier"])):
        if j % step != start % step:
            continue
        if isinstance(upto, str) and upto == "e%d" % j:
            return
        run_scenario(prop, sc)
    if isinstance(upto, str):
        return
    for idx in range(start, upto, step):
        st = Streams(run_seed(h["seed"], prop.id, idx))
        run_scenario(prop, prop.gen(st, h["tier"], idx))


def replay_file(path, quiet=False):
    """Re-run one replay file.  Returns (reproduced, result)."""
    with open(path) as fh:
        doc = json.load(fh)
    prop = get_prop(doc["property"])
    if doc.get("history"):
        run_history_prefix(prop, doc["history"])
    r = run_scenario(prop, doc["scenario"])
    rep = any(v["oracle"] == doc["oracle"] for v in r["violations"])
    if not quiet:
        for v in r["violations"]:
            print("  violation %s: %s" % (v["oracle"], v["msg"][:300]))
    return rep, r, doc


def replay_in_fresh_interpreter(path, hashseed="0"):
    env = dict(os.environ)
    env["PYTHONHASHSEED"] = str(hashseed)
    env["LASIM_NO_REEXEC"] = "1"
    env.pop("PYTHONOPTIMIZE", None)
    try:
        with open(path) as fh:
            if (json.load(fh).get("interpreter") or {}).get("optimize"):
                env["PYTHONOPTIMIZE"] = "1"
    except Exception:
        pass
    p = subprocess.run([sys.executable, CHECK, "--replay", path], env=env, stdout=subprocess.PIPE,
                       stderr=subprocess.STDOUT, timeout=600)
    return p.returncode == 1, p.stdout.decode("utf-8", "replace")


# ------------------------------------------------------------------------------------
# driver
# ------------------------------------------------------------------------------------
def spawn_workers(pid, seed, tier, runs, wall, nworkers, digests=False, hashseed_base=None):
    tmp = tempfile.mkdtemp(prefix="lasim-%s-" % pid)
    procs = []
    deadline = time.time() + wall
    for w in range(nworkers):
        out = os.path.join(tmp, "w%d.json" % w)
        args = {"seed": seed, "tier": tier, "start": w, "stop": runs, "step": nworkers,
                "deadline": deadline, "out": out, "digests": digests}
        env = dict(os.environ)
        hs = H(seed if hashseed_base is None else hashseed_base, "hashseed", w) % 4294967295
        env["PYTHONHASHSEED"] = str(hs)
        env["LASIM_NO_REEXEC"] = "1"
        # interpreter configuration is one more knob of the swarm: every fourth worker runs with python -O (asserts stripped)
        env.pop("PYTHONOPTIMIZE", None)
        if w % 4 == 3:
            env["PYTHONOPTIMIZE"] = "1"
        p = subprocess.Popen([sys.executable, CHECK, pid, "--worker", json.dumps(args)], env=env,
                             stdout=subprocess.PIPE, stderr=subprocess.STDOUT)
        procs.append((p, out, w))
    results, errors = [], []
    hard = wall + 300
    t0 = time.time()
    for p, out, w in procs:
        try:
            so, _ = p.communicate(timeout=max(5, hard - (time.time() - t0)))
        except subprocess.TimeoutExpired:
            p.kill()
            so, _ = p.communicate()
            errors.append("worker %d: killed after hard timeout\n%s" % (w, so.decode("utf-8", "replace")[-3000:]))
            continue
        if p.returncode != 0 or not os.path.exists(out):
            errors.append("worker %d: exit %s\n%s" % (w, p.returncode, so.decode("utf-8", "replace")[-3000:]))
            continue
        with open(out) as fh:
            results.append(json.load(fh))
        for he in results[-1].get("harness_errors", []):
            errors.append("worker %d: run %s raised inside the harness (%d such runs in this worker)\n%s\nscenario=%s" % (
                w, he["index"], results[-1].get("n_harness_errors", 0), he["trace"], json.dumps(he["scenario"])[:1500]))
    shutil.rmtree(tmp, ignore_errors=True)
    return results, errors


def merge(results):
    m = {"runs": 0, "nontrivial": 0, "counts": {}, "keys": set(), "digests": {}, "violations": [],
         "known": {}, "samples": [], "events": 0, "skipped": {}, "stopped_early": False, "enumerated": 0}
    for r in results:
        m["runs"] += r["runs"]
        m["nontrivial"] += r["nontrivial"]
        m["events"] += r["events"]
        m["enumerated"] += r["enumerated"]
        m["stopped_early"] = m["stopped_early"] or r["stopped_early"]
        for k, v in r["counts"].items():
            m["counts"][k] = m["counts"].get(k, 0) + v
        for k, v in r["skipped"].items():
            m["skipped"][k] = m["skipped"].get(k, 0) + v
        for k, v in r["known"].items():
            m["known"][k] = m["known"].get(k, 0) + v
        m["keys"].update(r["keys"])
        m["digests"].update(r["digests"])
        m["violations"].extend(r["violations"])
        if len(m["samples"]) < 3:
            m["samples"].extend(r["samples"][:1])
    m["violations"].sort(key=lambda v: str(v["index"]))
    return m


def check_main(pid, tier, seed, nworkers=None):
    prop = get_prop(pid)
    t0 = time.time()
    b = prop.budget(tier)
    nworkers = nworkers or int(os.environ.get("LASIM_WORKERS", os.cpu_count() or 4))
    print("lasim check property=%s tier=%s VERIF_SEED=%d runs<=%d wall<=%ss workers=%d repo=%s" % (
        pid, tier, seed, b["runs"], b["wall"], nworkers, REPO))
    sys.stdout.flush()
    findings = load_findings()
    exit_code = 0
    lines = []

    results, errors = spawn_workers(pid, seed, tier, b["runs"], b["wall"], nworkers)
    m = merge(results)
    if errors:
        print("HARNESS-ERROR property=%s %s" % (pid, errors[0]))
        for e in errors[1:]:
            print("HARNESS-ERROR property=%s (also) %s" % (pid, e.splitlines()[0]))
        exit_code = 3

    # known findings: replay the canonical file of each listed finding of this property
    known_lines = {}
    for f in findings:
        if f["property"] != pid:
            continue
        rp = os.path.join(VERIF, f["replay"]) if f.get("replay") else None
        status = f.get("status", "known")
        if rp and os.path.exists(rp):
            rep, r, doc = replay_file(rp, quiet=True)
            if status == "known":
                if rep:
                    known_lines[f["id"]] = "KNOWN-FINDING: property=%s %s [%s; canonical replay %s still fails" % (
                        pid, f["what"], f["id"], f["replay"])
                else:
                    print("note: known finding %s no longer reproduces from %s" % (f["id"], f["replay"]))
            elif status == "fixed" and rep:
                print("VIOLATION property=%s replay=%s" % (pid, rp))
                print("  (regression of fixed finding %s: %s)" % (f["id"], f["what"]))
                exit_code = max(exit_code, 1)
                m.setdefault("regressions", []).append(f["id"])
    for fid, n in sorted(m["known"].items()):
        f = [x for x in findings if x["id"] == fid][0]
        if fid not in known_lines:
            known_lines[fid] = "KNOWN-FINDING: property=%s %s [%s" % (pid, f["what"], fid)
        known_lines[fid] += "; %d searched scenarios matched" % n
    for fid in sorted(known_lines):
        print(known_lines[fid] + "]")

    # new violations: shrink, write replay, confirm in a fresh interpreter
    reported = {}
    shrink_stats = []
    for v in m["violations"]:
        oracle = v["violation"]["oracle"]
        if oracle in reported or len(reported) >= 3:
            continue
        sbudget = 45.0 if tier == "quick" else 180.0
        small, ntests = shrink(prop, v["scenario"], oracle, budget_s=sbudget)
        r = run_scenario(prop, small)
        viol = [x for x in r["violations"] if x["oracle"] == oracle]
        if not viol:
            small, viol = v["scenario"], [v["violation"]]
        kf = find_known(prop, small, viol[0], findings)
        path = write_replay(prop, small, viol[0], seed, v["index"], shrink_tests=ntests)
        ok, outtxt = replay_in_fresh_interpreter(path)
        if not ok and v.get("optimize"):
            # found under python -O and not reproducible without it: the replay file carries the interpreter configuration
            path = write_replay(prop, v["scenario"], v["violation"], seed, v["index"], shrink_tests=ntests, optimize=v["optimize"])
            ok, outtxt = replay_in_fresh_interpreter(path)
            shrink_stats.append({"oracle": oracle, "under_python_O": True, "replay": path, "reproduced": ok})
            if ok:
                small, viol = v["scenario"], [v["violation"]]
                kf = None
        shrink_stats.append({"oracle": oracle, "tests": ntests, "replay": path, "reproduced": ok})
        if not ok and v.get("history"):
            # not reproducible from the scenario alone: try again with the worker's history as prefix (state leaked between runs)
            path = write_replay(prop, v["scenario"], v["violation"], seed, v["index"], shrink_tests=ntests, history=v["history"])
            ok, outtxt = replay_in_fresh_interpreter(path, hashseed=H(seed, "hashseed", v["history"]["start"]) % 4294967295)
            shrink_stats.append({"oracle": oracle, "with_history_prefix": True, "replay": path, "reproduced": ok})
            if ok:
                small, viol = v["scenario"], [v["violation"]]
                kf = None
        if not ok:
            print("HARNESS-ERROR property=%s violation of %s did not reproduce from %s" % (pid, oracle, path))
            print(outtxt[-2000:])
            exit_code = max(exit_code, 3)
            continue
        reported[oracle] = path
        if kf is not None:
            print("KNOWN-FINDING: property=%s %s [%s; reached after shrinking, replay %s]" % (
                pid, kf["what"], kf["id"], path))
            continue
        print("VIOLATION property=%s replay=%s" % (pid, path))
        print("  oracle=%s run=%s: %s" % (oracle, v["index"], viol[0]["msg"][:600]))
        exit_code = max(exit_code, 1)

    wall = time.time() - t0
    nviol = sum(1 for o in reported)
    total = max(1, m["runs"])
    cov = {
        "evaluations": m["runs"],
        "distinct_nontrivial": len(m["keys"]),
        "rule": prop.rule,
        "samples": m["samples"][:3],
        "enumerated_scenarios": m["enumerated"],
        "nontrivial_runs": m["nontrivial"],
        "simulated_events": m["events"],
        "simulated_time": "none (nothing in lasio reads a clock); logical events are counted instead",
        "runs_per_hour": int(m["runs"] / max(wall, 1e-6) * 3600),
        "seeds_per_hour": int(m["runs"] / max(wall, 1e-6) * 3600),
        "counts": dict(sorted(m["counts"].items())),
        "faults_and_perturbations_fired": {k: v for k, v in sorted(m["counts"].items()) if k.startswith("fault:") or k in (
            "short-read", "short-write", "forced-fast-engine-failures", "junk-lines", "failed-writes", "thread-switches",
            "preemption-points", "restarts", "fault-masked-by-lasio") or k.startswith("change:")},
        "skipped_by_definition": m["skipped"],
        "stopped_early_by_wall_cap": m["stopped_early"],
        "known_findings_matched": m["known"],
        "shrink": shrink_stats,
        "components": prop.real_vs_stub,
        "workers": nworkers,
        "workers_under_python_O": len([w for w in range(nworkers) if w % 4 == 3]),
    }
    cov.update(prop.extra_evidence())
    ev = {"property_id": pid, "tier": tier, "seed": seed, "level": prop.level, "coverage": cov,
          "assumptions": list(prop.assumptions), "wall_s": round(wall, 2), "violations": nviol}
    os.makedirs(EVIDENCE_DIR, exist_ok=True)
    with open(os.path.join(EVIDENCE_DIR, "%s.json" % pid), "w") as fh:
        json.dump(ev, fh, indent=1, sort_keys=True, default=str)
    print("runs=%d nontrivial=%d distinct=%d events=%d wall=%.1fs exit=%d" % (
        m["runs"], m["nontrivial"], len(m["keys"]), m["events"], wall, exit_code))
    top = sorted(m["counts"].items(), key=lambda kv: -kv[1])[:25]
    print("counts: " + ", ".join("%s=%d" % kv for kv in top))
    if m["skipped"]:
        print("skipped: %s" % m["skipped"])
    return exit_code


def determinism_selftest(pid, seed, runs=200):
    """Each of the first `runs` run indices is executed twice, in different interpreters with
    different PYTHONHASHSEED and different worker counts; digests must match pairwise.  Both worker counts are multiples
    of four, so that a run index meets the same interpreter configuration in both passes (run i is executed under
    python -O iff i % 4 == 3): the line-level scheduler pre-empts at source lines, and -O removes the assert lines."""
    tier = os.environ.get("VERIF_TIER") or "quick"
    a, ea = spawn_workers(pid, seed, tier, runs, 600, 16, digests=True, hashseed_base=1)
    b, eb = spawn_workers(pid, seed, tier, runs, 600, 4, digests=True, hashseed_base=2)
    ma, mb = merge(a), merge(b)
    bad = [k for k in ma["digests"] if ma["digests"][k] != mb["digests"].get(k)]
    print("determinism property=%s runs=%d mismatches=%d errors=%d" % (pid, len(ma["digests"]), len(bad),
                                                                      len(ea) + len(eb)))
    for e in ea + eb:
        print(e)
    for k in bad[:10]:
        print("  run %s: %s vs %s" % (k, ma["digests"][k], mb["digests"].get(k)))
    return 0 if not bad and not ea and not eb and len(ma["digests"]) >= min(runs, 1) else 3
