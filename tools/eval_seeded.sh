#!/bin/bash
# usage: tools/eval_seeded.sh [<id> ...]  -- for every archived seeded change: re-express the patch against /repo HEAD
# (patch.head.diff), run the quick check of the property it breaks against a scratch copy with the patch applied, and
# record the outcome in seeded/<id>/detection.json
cd /verif/seeded || exit 1
ids=${@:-$(ls)}
head=$(git -C /repo rev-parse --short HEAD)
for id in $ids; do
  d=/verif/seeded/$id; [ -f $d/patch.diff ] || continue
  prop=${id%%-*}
  base=$(/venv/bin/python -c "import json;print(json.load(open('$d/meta.json'))['base_commit'])")
  if git -C /repo apply --check $d/patch.diff 2>/dev/null; then cp $d/patch.diff $d/patch.head.diff; how="applies to HEAD as is"
  elif /verif/tools/rebase_patch.sh $d/patch.diff $base $d/patch.head.diff >/dev/null 2>&1; then how="rebased by cherry-pick from $base"
  elif [ -f $d/patch.head.diff ] && git -C /repo apply --check $d/patch.head.diff 2>/dev/null; then how="ported by hand"
  else echo "$id: cannot express patch against HEAD"; continue; fi
  out=$(/verif/tools/try_mutant.sh $d/patch.head.diff $prop 2>&1); rc=$?
  viol=$(echo "$out" | grep -c "^VIOLATION")
  first=$(echo "$out" | grep "oracle=" | head -1 | cut -c1-300 | sed 's/\\/\\\\/g; s/"/\\"/g')
  cat > $d/detection.json <<M
{"id": "$id", "property": "$prop", "repo_head": "$head", "patch_against_head": "patch.head.diff ($how)",
 "command": "tools/try_mutant.sh seeded/$id/patch.head.diff $prop   (quick tier, VERIF_SEED=0, scratch copy of /repo with the patch)",
 "check_exit": $rc, "violations_reported": $viol, "detected": $([ $rc -eq 1 ] && echo true || echo false),
 "first_violation": "$first"}
M
  /venv/bin/python - "$id" <<'PY'
import json, sys
i = sys.argv[1]
notes = json.load(open('/verif/seeded/NOTES.json'))
if i in notes:
    p = '/verif/seeded/%s/detection.json' % i
    d = json.load(open(p)); d['note'] = notes[i]; json.dump(d, open(p, 'w'), indent=1)
PY
  echo "$id: exit=$rc violations=$viol ($how)"
done
