#!/bin/bash
# usage: tools/confirm_seed.sh <PROP> <A|B>   -- confirms the seeded change in /tmp/seed-<PROP>/OUT and archives it
# under /verif/seeded/<PROP>-<A|B>/ (patch.diff, demo.py, notes.md, meta.json)
set -u
P=$1; V=$2; PFX=${3:-seed}; R=${4:-}; W=/tmp/$PFX-$P; O=$W/OUT
cd $W || exit 9
git checkout -q -- . ; git status --short | grep -v '^??' && { echo "worktree not clean"; exit 9; }
PYTHONPATH=$W timeout 300 /venv/bin/python OUT/demo_$V.py >/tmp/confirm-$P-$V.clean.log 2>&1; a=$?
git apply OUT/$V.diff || { echo "patch does not apply"; exit 9; }
PYTHONPATH=$W timeout 300 /venv/bin/python OUT/demo_$V.py >/tmp/confirm-$P-$V.mut.log 2>&1; b=$?
/verif/tools/baseline.py $W >/tmp/confirm-$P-$V.suite.log 2>&1; c=$?
git checkout -q -- .
echo "$P-$R$V: demo_clean_exit=$a demo_mutant_exit=$b suite_exit=$c ($(tail -1 /tmp/confirm-$P-$V.suite.log | head -c 100))"
if [ $a -eq 0 ] && [ $b -ne 0 ] && [ $c -eq 0 ]; then
  D=/verif/seeded/$P-$R$V; mkdir -p $D
  cp OUT/$V.diff $D/patch.diff; cp OUT/demo_$V.py $D/demo.py; cp OUT/notes.md $D/notes.md
  cat > $D/meta.json <<M
{"id": "$P-$R$V", "breaks_property": "$P", "source": "independent sub-agent given only the property text and a scratch worktree",
 "base_commit": "$(git rev-parse --short HEAD)",
 "confirmed": {"demo_on_clean_tree_exit": $a, "demo_with_change_exit": $b, "pinned_suite_with_change": "254/254 stable tests pass"},
 "commands": ["PYTHONPATH=<worktree> /venv/bin/python demo.py (clean: exit 0; with patch: exit $b)", "/verif/tools/baseline.py <worktree with patch>"],
 "needs_to_manifest": "see notes.md (section for change $V)"}
M
  echo "  archived -> $D"
else
  echo "  NOT confirmed"
fi
