#!/bin/bash
# usage: tools/try_mutant.sh <patch.diff> <ID> [<ID>...]   (env TIER=quick|thorough, SEED=n)
# Applies the patch to a scratch copy of /repo under /tmp, runs the named checks against it (LASIM_REPO), removes the copy.
set -u
patch=$(readlink -f "$1"); shift
d=$(mktemp -d /tmp/lasio-mut-XXXXXX)
rsync -a --exclude .git /repo/ "$d/"
( cd "$d" && git init -q . 2>/dev/null; git -C "$d" apply --whitespace=nowarn "$patch" ) || { echo "PATCH FAILED"; rm -rf "$d"; exit 9; }
rc=0
for id in "$@"; do
  out=$(LASIM_REPO="$d" LASIM_EVIDENCE_DIR="$d/.evidence" LASIM_REPLAY_DIR="$d/.replays" VERIF_SEED="${SEED:-0}" timeout 3600 /verif/check "$id" --tier "${TIER:-quick}" 2>&1)
  r=$?
  echo "== $id exit=$r"; echo "$out" | grep -E "VIOLATION|HARNESS|oracle=" | cut -c1-300 | head -8
  [ $r -ne 0 ] && rc=$r
done
rm -rf /tmp/last-mutant-replays; cp -r "$d/.replays" /tmp/last-mutant-replays 2>/dev/null
rm -rf "$d"
exit $rc
