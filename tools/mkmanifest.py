#!/venv/bin/python
"""Generate /verif/MANIFEST.json from the table below (kept in one place so it stays valid)."""
import json
import os

VERIF = os.path.dirname(os.path.dirname(os.path.abspath(__file__)))

NOTE = ("trusted base: CPython io stack and numpy are real; the raw device/file namespace is the SimFS stub; the check "
        "samples (seeded search) and sweeps only the small strata it names as complete")

CLAIMED = {
    "C20": dict(cat="fault_enumeration", ref="DESIGN.md 3 (C20)",
                technique="deterministic simulation: simulated file system (SimFS) under the real CPython io stack, "
                          "OSError injected at every k-th low-level I/O operation, seeded swarm over call kinds/inputs/"
                          "delivery policies, handle-table oracle at the instant the call returns or raises",
                text="For every sampled (call kind, input class, options, delivery policy) the clean run's N low-level "
                     "operations are enumerated and a fault is injected at each k<=N (sampled above a cap); every "
                     "input-induced failure class of the statement is in the workload. Evidence of absence of leaks on "
                     "the explored fault points, not a proof over all inputs."),
}

CLAIMED.update({
    "C13": dict(cat="exploration", ref="DESIGN.md 3 (C13), B.2",
                technique="deterministic simulation of operation histories: seeded append/insert/delete/replace sequences on "
                          "real SectionItems vs a plain list model, naming invariants after every step, complete sweep of all "
                          "sequences <= 3 over a 4-name alphabet, file round trip through the simulated file system",
                text="Invariants I1-I6 (distinct session names, name->item resolution by item/attribute/LASFile access, blank => "
                     "UNKNOWN, :1..:n numbering after each insertion, always-unique names untouched, originals preserved and "
                     "re-read with the same session names) are checked after every operation of seeded histories; small "
                     "histories are enumerated completely. Sampling evidence beyond that."),
    "C15": dict(cat="exploration", ref="DESIGN.md 3 (C15), B.2",
                technique="deterministic simulation of operation histories with interleaved probes: every lookup view "
                          "(in, [], getattr, get, del, int, slice, plain assignment) compared against the first-match list "
                          "model after each step; complete sweep of small sections x probe-key set",
                text="All accessors are compared with the statement's first-match list semantics on sections reached by "
                     "seeded histories (case-normalised or not, bare or inside a LASFile or read from a generated file); "
                     "small sections are enumerated completely with the whole probe set."),
})

CLAIMED.update({
    "C14": dict(cat="exploration", ref="DESIGN.md 3 (C14), B.3",
                technique="deterministic simulation of operation histories: 1-2 simulated clients, each a real LASFile and a "
                          "plain list model driven by the same seeded operation sequence, interleaved by a seeded op-level "
                          "scheduler and (thorough, a few quick runs) by the line-level baton scheduler with real threads; model "
                          "equality, agreement of all views and non-interference checked after every step",
                text="Every listed curve operation (positions incl. negatives and beyond the end, existing/new/duplicate/blank "
                     "names, set_data with wider arrays, names lists, truncate) is generated; after each step order, original "
                     "names, metadata and arrays equal the list model and keys/values/items/index/data/int and mnemonic "
                     "indexing agree, on both clients' objects."),
    "C17": dict(cat="exploration", ref="DESIGN.md 3 (C17)",
                technique="deterministic simulation of operation histories with checkpoint/restart/clone: pickle protocols 0..5 and "
                          "deepcopy land after any prefix of a seeded curve+section history, on the LASFile, a section or an "
                          "item; canon equality, write() text equality, isolation after mutation, and continued model agreement "
                          "on the restored object",
                text="Copies are compared with the original through the canonical observation (sessions, originals, units, typed "
                     "values, descriptions, arrays with dtype, index_unit, index_initial, encoding, case flags) and through "
                     "write() text; mutation of the copy must not reach the original; after a restart the history continues."),
})

CLAIMED.update({
    "C16": dict(cat="exploration", ref="DESIGN.md 3 (C16)",
                technique="deterministic simulation of write histories on the simulated file system: 1..4 writes of one object "
                          "through path / caller stream / StringIO with OSError injected at the n-th raw write in between; deep "
                          "before/after snapshots (frame condition), byte comparison of successive outputs, independent parse of "
                          "the output for STRT/STOP/STEP truthfulness",
                text="Frame condition (only the documented fields may differ), byte-identical repeated writes with no further "
                     "in-memory change, and STRT/STOP/STEP truthfulness under the stated trigger are checked on seeded objects "
                     "(scratch / read / read-then-edited incl. in-place index edits, stale suffixes, None/empty header values) x "
                     "writer option sets; failed writes obey the same frame condition."),
})

CLAIMED.update({
    "C02": dict(cat="exploration", ref="DESIGN.md 3 (C02)",
                technique="deterministic simulation of the read stream protocol: the same generated document delivered through "
                          "simulated channels (path/Path/stream/StringIO/string x codec x newline x delivery policy) and read with "
                          "both engines plus a forced failure of the fast engine (buggify) that the fallback must mask; engine trace "
                          "via the module-attribute seam; complete sweep of a 360-point layout lattice",
                text="Differential oracle exactly as stated (same shape, bit-identical values, same NaN mask, equal header "
                     "sections) on seeded layouts: 1x1, 1xn, nx1, padding, blank/comment lines at every site, ~A before other "
                     "sections, LF/CRLF/CR, missing final newline; the engine trace shows the fast engine really produced the "
                     "compared data."),
})

CLAIMED.update({
    "C05": dict(cat="exploration", ref="DESIGN.md 3 (C05)",
                technique="deterministic simulation of the read stream protocol (tell/seek cookies, line accounting) under simulated "
                          "channels, codecs incl. utf-16, LF/CRLF/CR and short reads, on seeded documents whose every line carries a "
                          "unique section tag; attribution oracle per section and per data cell",
                text="Any order of sections after ~V, ~A anywhere, titles in either case and any spelling, empty and custom sections, "
                     "steering names in ~C/~P/custom sections: each tagged line must arrive exactly once, in order, in the section "
                     "whose title precedes it, and only ~V's VERS/WRAP/DLM and ~W's NULL may steer."),
    "C07": dict(cat="exploration", ref="DESIGN.md 3 (C07)",
                technique="deterministic simulation of the read stream protocol (sniff -> seek -> reshape passes) under simulated "
                          "channels and delivery policies, both engines, on seeded documents whose cells carry their own (row, "
                          "column) coordinates; cell-by-cell binding oracle",
                text="d declared curves vs c data columns (c<,=,>d, d>=0), rows beyond the sniff window, wrapped/unwrapped, no WRAP "
                     "item, comment/blank lines: equal lengths, exact cell placement, declared order/metadata, surplus columns "
                     "unnamed after the declared ones, missing columns all-NaN."),
})

CLAIMED.update({
    "C01": dict(cat="exploration", ref="DESIGN.md 3 (C01)",
                technique="deterministic simulation of save/load runs: seeded in-memory LASFile x writer-option swarm written "
                          "through a simulated output channel and read back through a simulated input channel (codec, newline, "
                          "delivery policy) with both engines; cell-by-cell oracle with the tolerance derived from the printed token",
                text="Same curves/order/mnemonics/rows, every finite sample within half a unit of its last printed digit, NaN <-> "
                     "NULL outside the index, index never nulled - on seeded shapes (curve counts biased to multiples of the "
                     "fields per wrapped line, rows beyond the sniff window), magnitudes and option combinations. Tier B: the "
                     "workload dominates; the simulator varies channels and delivery."),
    "C06": dict(cat="exploration", ref="DESIGN.md 3 (C06)",
                technique="deterministic simulation of load and save/load runs through simulated channels and delivery policies, both "
                          "engines and null policies, on seeded documents with NULL-equal / near-NULL cells at every site; exact "
                          "if-and-only-if oracle per cell, NaN-set equality after write -> read",
                text="Under strict a cell is NaN iff it is in a non-index numeric column and numerically equals the ~Well NULL "
                     "(any spelling, incl. zero and >6-digit NULLs); text columns and the index are untouched; 'none' changes "
                     "nothing; the NaN set survives write -> read."),
})

CLAIMED.update({
    "C03": dict(cat="exploration", ref="DESIGN.md 3 (C03), Appendix C",
                technique="deterministic simulation of save/load runs: seeded header item lists from the statement's conformant "
                          "alphabet written as 1.2/2.0 through a simulated output channel and codec, read back through a simulated "
                          "input channel (codec, newline, delivery policy) with each mnemonic_case; field-by-field oracle with the "
                          "statement's permitted differences only",
                text="Items, order, original mnemonic (mapped by the case function), unit, value (numerically) and description of "
                     "~Version/~Well/~Curves/~Parameter and the ~Other text must come back; each item is in turn stretched to be "
                     "the widest of its section, incl. empty value + unit and the four 1.2 ~Well items with their own layout."),
})

CLAIMED.update({
    "C10": dict(cat="exploration", ref="DESIGN.md 3 (C10), 2.4",
                technique="deterministic simulation with several simulated clients: read/write/construct/mutate histories over the "
                          "simulated file system (channel x codec x newline x delivery policy), interleaved by a seeded op-level "
                          "scheduler and by a line-level baton scheduler (real threads released one at a time at sys.settrace line "
                          "events inside lasio); every read compared with the solo reference read of the same text",
                text="Channel/encoding independence (incl. non-ASCII header text in BOM/explicit codecs, CR/CRLF files), purity of "
                     "repeated reads after writes, constructions and mutations of earlier results, and non-interference between "
                     "interleaved clients are decided by one oracle: equality with the solo StringIO read."),
    "C19": dict(cat="fault_enumeration", ref="DESIGN.md 3 (C19)",
                technique="deterministic simulation with fault injection into stored content: sequences of 1..5 junk lines injected at "
                          "sites inside ~V/~W/~P/custom sections of readable bases (generated + example corpus), delivered through "
                          "simulated channels; complete sweep of every site x ~60 adversarial strings for one base on every run",
                text="With the flag no junk line may raise, change/drop/reorder genuine items or alter curve data; without it only "
                     "LASHeaderError naming the line is allowed. Sites x adversarial strings are enumerated for one base, longer "
                     "fault sequences and other bases are sampled."),
})

CLAIMED.update({
    "C11": dict(cat="exploration", ref="DESIGN.md 3 (C11)",
                technique="deterministic simulation of load/save histories: one client cycling x -> read -> write -> read -> write ... "
                          "(k = 2..5) against the simulated file system, output/input channel, codec, newline and delivery policy "
                          "varying per cycle; canon equality between consecutive re-reads",
                text="Example corpus (as stored bytes), generated documents and textual mutations of both (duplicated/blank "
                     "mnemonics, odd units, emptied values, long fields) x writer option sets: from the first re-read on, the "
                     "content must not change any more. Inputs lasio cannot read or write once are skipped by definition; LAS 3.0 "
                     "inputs and quoted text cells are known findings."),
})

CLAIMED.update({
    "C09": dict(cat="exploration", ref="DESIGN.md 3 (C09)",
                technique="deterministic simulation with fault injection into stored content: compositions of presentation "
                          "perturbations (noise lines at seeded sites, re-padding, newline style, re-wrapping, re-delimiting) "
                          "applied to the stored text of generated and example-corpus bases, both texts delivered through simulated "
                          "channels; metamorphic equality of the canonical read results",
                text="canon(read(transformed)) == canon(read(base)) for seeded compositions of the listed transformations, with "
                     "sites and amounts over the whole file (incl. 21+ noise lines in a row and lines right after ~A), wrapping "
                     "widths from one value per line to all on one line, SPACE/TAB/COMMA with and without padding."),
})

CLAIMED.update({
    "C12": dict(cat="exploration", ref="DESIGN.md 3 (C12)",
                technique="deterministic simulation of save/load runs: the same input loaded twice and written with a seeded PAIR "
                          "of writer configurations (equal numeric precision) into the simulated file system, both outputs read "
                          "back through simulated channels; canon equality apart from the VERS and WRAP items",
                text="Example corpus, generated documents and header mutations x pairs over version 1.2/2.0, wrap, widths, spacers, "
                     "data width, header style: the content read back must not depend on the configuration; LAS 3.0 inputs, "
                     "quoted text cells, unusable NULL values and ~Well fields containing colons are known findings."),
})

NOT_APPLICABLE = {
    "C04": "read_header_line is a pure function of one already-delivered line (regex cascade): no stream position, "
           "history, fault or interleaving can influence it, so deterministic simulation adds nothing (DESIGN.md 4)",
    "C08": "SectionParser.num is a pure function of one string (literal recognition); no schedule, fault or history "
           "(DESIGN.md 4)",
    "C18": "exporters and depth views are pure functions of one in-memory object with no history; their only I/O "
           "(the path argument of to_csv) is covered by C20 (DESIGN.md 4)",
}

PENDING = {}   # id -> reason, for properties whose check is not built yet


def main():
    props = [json.loads(l) for l in open(os.path.join(VERIF, "properties.jsonl"))]
    ids = [p["id"] for p in props]
    checks = []
    for pid in ids:
        if pid not in CLAIMED:
            continue
        c = CLAIMED[pid]
        checks.append({
            "property_id": pid,
            "quick_cmd": "timeout 900 ./check %s --tier quick" % pid,
            "thorough_cmd": "timeout 3600 ./check %s --tier thorough" % pid,
            "evidence_file": "/verif/evidence/%s.json" % pid,
            "replay_cmd_template": "./check --replay {path}",
            "engine": "lasim",
            "level_claimed": {"category": c["cat"], "text": c["text"], "design_ref": c["ref"]},
            "level_note": c.get("note", NOTE),
            "technique": c["technique"],
        })
    na = []
    for pid in ids:
        if pid in CLAIMED:
            continue
        if pid in NOT_APPLICABLE:
            na.append({"property_id": pid, "reason": NOT_APPLICABLE[pid]})
        else:
            na.append({"property_id": pid, "reason": PENDING.get(pid, "not claimed: the simulation check for this property "
                                                                  "is not built/proven quiet yet (see DESIGN.md 0)")})
    m = {
        "version": 1,
        "setup_cmd": "./check setup",
        "hooks": {
            "guard": "LASIO_VERIF",
            "enable": "no source hooks are needed: all seams are outside /repo (patched builtins.open/io.open/"
                      "os.path.getsize and os.open/os.read/os.close for /simfs/* paths and descriptors, file-like arguments, "
                      "module-attribute wrappers, the lasio logger, sys.settrace, every fourth worker under python -O); checks "
                      "import lasio from the /repo working tree as it is",
            "baseline_off_cmd": "cd /repo && /venv/bin/python -m pytest -ra -q -p no:cacheprovider --timeout=900 "
                                "--continue-on-collection-errors",
            "source_commits": [],
            "add_only": True,
        },
        "engines": [{"name": "lasim", "path": "/verif/lasim", "serves_properties": sorted(CLAIMED),
                     "kind_free_text": "deterministic simulator: SimFS raw device + fault plans, seeded generators, "
                                       "reference models, ddmin shrinker, explicit replay files"}],
        "checks": checks,
        "not_applicable": na,
        "notes": "See DESIGN.md. Known findings / fixed defects: known_findings.json.",
    }
    with open(os.path.join(VERIF, "MANIFEST.json"), "w") as fh:
        json.dump(m, fh, indent=1)
    print("MANIFEST.json: %d checks, %d not_applicable" % (len(checks), len(na)))


if __name__ == "__main__":
    main()
