#!/bin/bash
# usage: tools/rebase_patch.sh <patch.diff> <base-commit> <out.diff>  -- re-express a patch made against <base-commit> against /repo HEAD
set -e
p=$(readlink -f "$1"); base=$2; out=$(readlink -f "$3" 2>/dev/null || echo "$3")
w=$(mktemp -d /tmp/rebase-XXXXXX); rmdir $w
git -C /repo worktree add -q --detach $w $base
cd $w; git apply "$p"; git -c user.name=x -c user.email=x@x commit -q -am mut
c=$(git rev-parse HEAD); git checkout -q --detach $(git -C /repo rev-parse HEAD)
if git -c user.name=x -c user.email=x@x cherry-pick $c >/dev/null 2>&1; then git diff HEAD~1 HEAD > "$out"; echo "rebased -> $out"; rc=0; else echo "CONFLICT"; git cherry-pick --abort || true; rc=1; fi
cd /; git -C /repo worktree remove --force $w
exit $rc
