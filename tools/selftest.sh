#!/bin/bash
# Determinism self-test (both tiers' generators) for every claimed property + replay of every canonical finding file.
cd /verif
rc=0
for p in $(/venv/bin/python -c "import json;print(' '.join(c['property_id'] for c in json.load(open('MANIFEST.json'))['checks']))"); do
  for t in quick thorough; do
    out=$(VERIF_TIER=$t timeout 1200 ./check $p --determinism ${1:-120} 2>&1 | tail -1); echo "$t $out"
    echo "$out" | grep -q "mismatches=0 errors=0" || rc=1
  done
done
for f in findings/*.json; do
  out=$(./check --replay $f 2>&1 | tail -1); echo "$f: $out"
done
exit $rc
