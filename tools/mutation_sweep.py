#!/venv/bin/python
"""Mutation sweep (sensitivity self-test, DESIGN 2.8).

Generates first-order AST mutants of lasio/{las,reader,writer,las_items,defaults}.py, keeps those that still pass the pinned
test-suite ("realistic changes the existing tests do not notice"), and runs every claimed check (reduced budget) against
each survivor.  Results go to /verif/mutants/sweep/<stamp>.json: killed-by-suite, caught-by-check (which), not caught.

usage: tools/mutation_sweep.py [--slots 8] [--limit N] [--files las.py,reader.py] [--seed 0] [--runs-scale 0.1] [--retry <earlier result.json>]
"""
import ast
import copy
import json
import os
import random
import shutil
import subprocess
import sys
import time
from concurrent.futures import ThreadPoolExecutor

REPO = "/repo"
FILES = ["las.py", "reader.py", "writer.py", "las_items.py", "defaults.py"]
DESELECT = """tests/test_encoding.py::test_cp1252_chardet tests/test_encoding.py::test_iso88591_chardet
tests/test_encoding.py::test_pathlib_cp1252_chardet tests/test_encoding.py::test_pathlib_iso88591_chardet
tests/test_encoding.py::test_pathlib_utf16le_chardet tests/test_encoding.py::test_utf16le_chardet tests/test_examples.py::test_github
tests/test_open_file.py::test_open_url tests/test_open_file.py::test_open_url_different_newlines tests/test_read.py::test_data_characters_types
tests/test_version.py::test_explicit_existent_vcs_tool tests/test_version.py::test_verify_default_vcs_tool
tests/test_write.py::test_write_changed_file""".split()

CMP = {ast.Eq: ast.NotEq, ast.NotEq: ast.Eq, ast.Lt: ast.LtE, ast.LtE: ast.Lt, ast.Gt: ast.GtE, ast.GtE: ast.Gt,
       ast.Is: ast.IsNot, ast.IsNot: ast.Is, ast.In: ast.NotIn, ast.NotIn: ast.In}
BIN = {ast.Add: ast.Sub, ast.Sub: ast.Add, ast.Mult: ast.FloorDiv}


class Collector(ast.NodeVisitor):
    """Enumerate mutation sites as (kind, lineno, col, extra)."""

    def __init__(self):
        self.sites = []
        self.skip_depth = 0

    def visit_Expr(self, node):
        # skip logging calls and docstrings entirely
        v = node.value
        if isinstance(v, ast.Constant) and isinstance(v.value, str):
            return
        if isinstance(v, ast.Call) and isinstance(v.func, ast.Attribute) and isinstance(v.func.value, ast.Name) and v.func.value.id == "logger":
            return
        if isinstance(v, ast.Call):
            self.sites.append(("del_call", node.lineno, node.col_offset, None))
        self.generic_visit(node)

    def visit_Compare(self, node):
        for i, op in enumerate(node.ops):
            if type(op) in CMP:
                self.sites.append(("cmp", node.lineno, node.col_offset, i))
        self.generic_visit(node)

    def visit_BoolOp(self, node):
        self.sites.append(("boolop", node.lineno, node.col_offset, None))
        self.generic_visit(node)

    def visit_UnaryOp(self, node):
        if isinstance(node.op, ast.Not):
            self.sites.append(("not", node.lineno, node.col_offset, None))
        self.generic_visit(node)

    def visit_BinOp(self, node):
        if type(node.op) in BIN and not isinstance(node.left, ast.Constant) or type(node.op) in (ast.Add, ast.Sub):
            if type(node.op) in BIN:
                self.sites.append(("binop", node.lineno, node.col_offset, None))
        self.generic_visit(node)

    def visit_Constant(self, node):
        if isinstance(node.value, bool):
            self.sites.append(("bool", node.lineno, node.col_offset, None))
        elif isinstance(node.value, int) and -3 <= node.value <= 30:
            self.sites.append(("int+1", node.lineno, node.col_offset, None))
            if node.value != 0:
                self.sites.append(("int-1", node.lineno, node.col_offset, None))

    def visit_Continue(self, node):
        self.sites.append(("continue", node.lineno, node.col_offset, None))

    def visit_Break(self, node):
        self.sites.append(("break", node.lineno, node.col_offset, None))

    def visit_If(self, node):
        self.sites.append(("if_true", node.lineno, node.col_offset, None))
        self.sites.append(("if_false", node.lineno, node.col_offset, None))
        self.generic_visit(node)

    def visit_Assign(self, node):
        # x = <call/expr> inside functions: not deleted (would mostly crash) - but augmented defaults are interesting
        self.generic_visit(node)

    def visit_Return(self, node):
        self.generic_visit(node)


class Mutator(ast.NodeTransformer):
    def __init__(self, site):
        self.site = site
        self.done = False

    def match(self, node):
        return (not self.done) and getattr(node, "lineno", None) == self.site[1] and getattr(node, "col_offset", None) == self.site[2]

    def visit_Expr(self, node):
        if self.site[0] == "del_call" and self.match(node) and isinstance(node.value, ast.Call):
            self.done = True
            return ast.copy_location(ast.Pass(), node)
        return self.generic_visit(node)

    def visit_Compare(self, node):
        if self.site[0] == "cmp" and self.match(node):
            self.done = True
            node = copy.deepcopy(node)
            i = self.site[3]
            node.ops[i] = CMP[type(node.ops[i])]()
            return node
        return self.generic_visit(node)

    def visit_BoolOp(self, node):
        if self.site[0] == "boolop" and self.match(node):
            self.done = True
            node = copy.deepcopy(node)
            node.op = ast.Or() if isinstance(node.op, ast.And) else ast.And()
            return node
        return self.generic_visit(node)

    def visit_UnaryOp(self, node):
        if self.site[0] == "not" and self.match(node) and isinstance(node.op, ast.Not):
            self.done = True
            return node.operand
        return self.generic_visit(node)

    def visit_BinOp(self, node):
        if self.site[0] == "binop" and self.match(node) and type(node.op) in BIN:
            self.done = True
            node = copy.deepcopy(node)
            node.op = BIN[type(node.op)]()
            return node
        return self.generic_visit(node)

    def visit_Constant(self, node):
        if self.match(node):
            k = self.site[0]
            if k == "bool" and isinstance(node.value, bool):
                self.done = True
                return ast.copy_location(ast.Constant(not node.value), node)
            if k in ("int+1", "int-1") and isinstance(node.value, int) and not isinstance(node.value, bool):
                self.done = True
                return ast.copy_location(ast.Constant(node.value + (1 if k == "int+1" else -1)), node)
        return node

    def visit_Continue(self, node):
        if self.site[0] == "continue" and self.match(node):
            self.done = True
            return ast.copy_location(ast.Pass(), node)
        return node

    def visit_Break(self, node):
        if self.site[0] == "break" and self.match(node):
            self.done = True
            return ast.copy_location(ast.Pass(), node)
        return node

    def visit_If(self, node):
        if self.site[0] in ("if_true", "if_false") and self.match(node):
            self.done = True
            node = copy.deepcopy(node)
            node.test = ast.copy_location(ast.Constant(self.site[0] == "if_true"), node.test)
            return node
        return self.generic_visit(node)


def make_mutants(files):
    out = []
    for f in files:
        src = open(os.path.join(REPO, "lasio", f)).read()
        tree = ast.parse(src)
        c = Collector()
        c.visit(tree)
        lines = src.splitlines()
        for site in c.sites:
            m = Mutator(site)
            new = m.visit(copy.deepcopy(tree))
            if not m.done:
                continue
            ast.fix_missing_locations(new)
            try:
                code = ast.unparse(new)
                compile(code, f, "exec")
            except Exception:
                continue
            out.append({"file": f, "kind": site[0], "line": site[1], "col": site[2], "text": lines[site[1] - 1].strip()[:120], "code": code})
    return out


def run_one(slot_dir, mut, checks, runs_scale, seed):
    path = os.path.join(slot_dir, "lasio", mut["file"])
    orig = open(path).read()
    rec = {k: mut[k] for k in ("file", "kind", "line", "col", "text")}
    try:
        open(path, "w").write(mut["code"])
        env = dict(os.environ, PYTHONPATH=slot_dir, PYTHONDONTWRITEBYTECODE="1")
        t0 = time.time()
        cmd = ["/venv/bin/python", "-m", "pytest", "-x", "-q", "-p", "no:cacheprovider", "--timeout=300", "--no-cov", "-p", "no:randomly"]
        for d in DESELECT:
            cmd += ["--deselect", d]
        p = subprocess.run(cmd, cwd=slot_dir, env=env, stdout=subprocess.PIPE, stderr=subprocess.STDOUT, timeout=1200)
        rec["suite_s"] = round(time.time() - t0, 1)
        if p.returncode != 0:
            rec["status"] = "killed-by-suite"
            return rec
        rec["status"] = "survived-suite"
        for cid, runs in checks:
            env2 = dict(os.environ, LASIM_REPO=slot_dir, LASIM_WORKERS="2", LASIM_RUNS=str(max(50, int(runs * runs_scale))), LASIM_WALL="120",
                        LASIM_EVIDENCE_DIR=os.path.join(slot_dir, ".evidence"), LASIM_REPLAY_DIR=os.path.join(slot_dir, ".replays"),
                        VERIF_SEED=str(seed))
            q = subprocess.run(["/verif/check", cid], env=env2, stdout=subprocess.PIPE, stderr=subprocess.STDOUT, timeout=1800)
            out = q.stdout.decode("utf-8", "replace")
            if q.returncode == 1 and "VIOLATION" in out:
                rec["status"] = "caught"
                rec["caught_by"] = cid
                first = [ln for ln in out.splitlines() if "oracle=" in ln]
                rec["violation"] = first[0].strip()[:300] if first else ""
                return rec
            if q.returncode not in (0, 1):
                rec.setdefault("harness_errors", []).append(cid)
        rec["status"] = "not-caught"
        return rec
    except subprocess.TimeoutExpired:
        rec["status"] = "timeout"
        return rec
    finally:
        open(path, "w").write(orig)
        shutil.rmtree(os.path.join(slot_dir, ".replays"), ignore_errors=True)


def main():
    args = sys.argv[1:]

    def opt(name, default):
        return args[args.index(name) + 1] if name in args else default
    slots = int(opt("--slots", "8"))
    limit = int(opt("--limit", "0"))
    files = opt("--files", ",".join(FILES)).split(",")
    seed = int(opt("--seed", "0"))
    scale = float(opt("--runs-scale", "0.08"))
    only = opt("--checks", "")
    muts = make_mutants(files)
    random.Random(seed).shuffle(muts)
    if limit:
        muts = muts[:limit]
    retry = opt("--retry", "")
    if retry:
        # second look at the survivors of an earlier sweep (same /repo HEAD), with a larger budget
        prev = json.load(open(retry))
        want = set((r["file"], r["kind"], r["line"], r["col"]) for r in prev["results"] if r.get("status") == "not-caught")
        muts = [m for m in make_mutants(files) if (m["file"], m["kind"], m["line"], m["col"]) in want]
    man = json.load(open("/verif/MANIFEST.json"))
    sys.path.insert(0, "/verif")
    os.environ["LASIM_NO_REEXEC"] = "1"
    from lasim import core
    checks = []
    for c in man["checks"]:
        cid = c["property_id"]
        if only and cid not in only.split(","):
            continue
        checks.append((cid, core.get_prop(cid).quick["runs"]))
    print("mutants: %d, slots: %d, checks: %s" % (len(muts), slots, [c for c, _ in checks]))
    base = "/tmp/mutsweep"
    shutil.rmtree(base, ignore_errors=True)
    os.makedirs(base)
    slot_dirs = []
    for s in range(slots):
        d = os.path.join(base, "slot%d" % s)
        subprocess.check_call(["rsync", "-a", "--exclude", ".git", REPO + "/", d + "/"])
        slot_dirs.append(d)
    import queue
    free = queue.Queue()
    for d in slot_dirs:
        free.put(d)
    results = []
    stamp = time.strftime("%Y%m%d-%H%M%S")
    outdir = "/verif/mutants/sweep"
    os.makedirs(outdir, exist_ok=True)
    outfile = os.path.join(outdir, "%s.json" % stamp)

    def job(mut):
        d = free.get()
        try:
            r = run_one(d, mut, checks, scale, seed)
        except Exception as e:
            r = {k: mut[k] for k in ("file", "kind", "line", "col", "text")}
            r["status"] = "error:%s" % type(e).__name__
        finally:
            free.put(d)
        results.append(r)
        if len(results) % 10 == 0:
            summarize(results, outfile, len(muts), done=False)
        return r

    with ThreadPoolExecutor(max_workers=slots) as ex:
        list(ex.map(job, muts))
    summarize(results, outfile, len(muts), done=True)
    shutil.rmtree(base, ignore_errors=True)


def summarize(results, outfile, total, done):
    st = {}
    for r in results:
        st[r["status"]] = st.get(r["status"], 0) + 1
    by = {}
    for r in results:
        if r["status"] == "caught":
            by[r["caught_by"]] = by.get(r["caught_by"], 0) + 1
    doc = {"total_mutants": total, "finished": len(results), "complete": done, "status_counts": st, "caught_by": by,
           "repo_head": subprocess.check_output(["git", "-C", REPO, "rev-parse", "--short", "HEAD"]).decode().strip(),
           "results": sorted(results, key=lambda r: (r["file"], r["line"], r["col"], r["kind"]))}
    with open(outfile, "w") as fh:
        json.dump(doc, fh, indent=1)
    print("%d/%d %s caught_by=%s" % (len(results), total, st, by))
    sys.stdout.flush()


if __name__ == "__main__":
    main()
