#!/venv/bin/python
"""Run the pinned test suite of a lasio tree (default /repo) and compare with BASELINE.json stable_pass.
usage: tools/baseline.py [repo_dir]   -> exit 0 iff every stable_pass test passed."""
import json, os, subprocess, sys, tempfile
import xml.etree.ElementTree as ET
import shutil
src = sys.argv[1] if len(sys.argv) > 1 else "/repo"
repo = tempfile.mkdtemp(prefix="lasio-baseline-")
subprocess.check_call(["rsync", "-a", "--exclude", ".git", src.rstrip("/") + "/", repo + "/"])
base = json.load(open("/root/.vp/BASELINE.json"))
fd, xml = tempfile.mkstemp(suffix=".xml"); os.close(fd)
env = dict(os.environ); env.pop("LASIO_VERIF", None); env["PYTHONPATH"] = repo
p = subprocess.run(["/venv/bin/python", "-m", "pytest", "-q", "-p", "no:cacheprovider", "--timeout=900",
                    "--continue-on-collection-errors", "--junitxml=" + xml], cwd=repo, env=env,
                   stdout=subprocess.PIPE, stderr=subprocess.STDOUT)
passed = set()
for tc in ET.parse(xml).getroot().iter("testcase"):
    if not any(ch.tag in ("failure", "error", "skipped") for ch in tc):
        passed.add(tc.get("classname") + "::" + tc.get("name"))
os.unlink(xml)
shutil.rmtree(repo, ignore_errors=True)
missing = [t for t in base["stable_pass"] if t not in passed]
print("passed=%d stable_pass=%d missing=%d" % (len(passed), len(base["stable_pass"]), len(missing)))
for t in missing: print("  NOT PASSING:", t)
sys.exit(1 if missing else 0)
