#!/venv/bin/python
"""usage: tools/mkmutant.py <name> <file-relative-to-repo> <old> <new>   -> writes /verif/mutants/<name>.diff
(old must occur exactly once in the file of /repo HEAD's working tree)"""
import difflib, sys
name, rel, old, new = sys.argv[1:5]
src = open("/repo/" + rel).read()
assert src.count(old) == 1, "old text occurs %d times" % src.count(old)
dst = src.replace(old, new)
d = difflib.unified_diff(src.splitlines(True), dst.splitlines(True), "a/" + rel, "b/" + rel)
open("/verif/mutants/%s.diff" % name, "w").write("".join(d))
print("wrote mutants/%s.diff" % name)
