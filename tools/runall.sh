#!/bin/bash
# usage: tools/runall.sh [seed] [tier]  -- runs every claimed check, prints one line each
seed=${1:-0}; tier=${2:-quick}
for p in $(/venv/bin/python -c "import json;print(' '.join(c['property_id'] for c in json.load(open('/verif/MANIFEST.json'))['checks']))"); do
  s=$(date +%s.%N); out=$(VERIF_SEED=$seed /verif/check $p --tier $tier 2>&1); rc=$?; e=$(date +%s.%N)
  printf "%s rc=%d %.1fs %s\n" $p $rc $(echo "$e - $s" | bc) "$(echo "$out" | grep -E '^runs=' | cut -c1-90)"
  echo "$out" | grep -E "VIOLATION|HARNESS|oracle=" | cut -c1-250
done
